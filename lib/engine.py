"""Check context: runs jobs (generate -> replay on real code -> validate with TLC) and writes evidence."""
import json
import os
import shutil
import time

from vlib import (VERIF, WORK, ToolError, log, cps, uncps, tlc_generate, run_harness, tlc_validate, workdir,
                  count_lines, read_line, decode_behaviour, sha, state_dump, load_known_findings,
                  finding_matches, base_consts, cfg_json, build_harness)

DEFAULT_CFG = {"ds": "<", "de": ">", "tl": "tl", "rm": "rm", "off": "+00:00", "now": [19000, 0], "targets": ["a"]}

GEN_CFG_HEAD = "INIT Init\nNEXT Next\nCHECK_DEADLOCK FALSE\n"


class StopSelftest(Exception):
    pass


class Violation(Exception):
    def __init__(self, prop, replay):
        self.prop = prop
        self.replay = replay


class Ctx:
    def __init__(self, prop, tier, seed, level="model_checking"):
        self.prop = prop
        self.tier = tier
        self.seed = seed
        self.level = level
        self.t0 = time.time()
        self.cov = {"states": 0, "transitions": 0, "traces_validated_against_impl": 0, "evaluations": 0,
                    "distinct_nontrivial": 0, "generator_states": 0, "samples": [], "jobs": [],
                    "known_findings_hit": 0, "exhaustive": False}
        self.nontrivial = set()
        self.assumptions = []
        self.violations = 0
        self.known = load_known_findings()
        self.jobno = 0
        self.kf_printed = set()
        self.limit = None
        self.corrupt = None
        self.corrupt_result = None

    @property
    def quick(self):
        return self.tier == "quick"

    # -------------------------------------------------------------------------------------------
    def job(self, name, gens, invariants, ops=None, cfg=None, cli=False, fmt_hooks=False, extra_files=None,
            nontrivial=None, trace_module="Trace", validate_timeout=1500, sample_filter=None, conform=False, shards=None, env=None):
        """gens: list of dict(base=<generator module>, consts={..}, emit=<invariant name>, [simulate=(num, depth)],
                              [constraint=<name>])  or dict(file=<ndjson path of ready-made behaviours>)
                 or dict(rust=[args for `chk gen`])"""
        self.jobno += 1
        jn = "%s_%s_p%d_%02d_%s" % (self.prop, self.tier, os.getpid(), self.jobno, name)
        d = workdir(jn)
        cfg = dict(DEFAULT_CFG, **(cfg or {}))
        beh = os.path.join(d, "behaviours.ndjson")
        open(beh, "w").close()
        defaults = {"cfg": cfg_json(cfg), "ops": ops or [], "gen": name}
        jobrec = {"job": name, "generators": [], "invariants": invariants}
        # generators run concurrently (each TLC is mostly JVM start-up); their output is appended in order
        from concurrent.futures import ThreadPoolExecutor
        import subprocess
        from vlib import CHK

        def run_gen(gi, g):
            part = os.path.join(d, "part_%02d.ndjson" % gi)
            if "file" in g:
                n = 0
                with open(g["file"]) as fi, open(part, "w") as fo:
                    for line in fi:
                        rec = json.loads(line)
                        for k, v in defaults.items():
                            rec.setdefault(k, v)
                        fo.write(json.dumps(rec, separators=(",", ":")) + "\n")
                        n += 1
                return part, {"file": os.path.basename(g["file"]), "behaviours": n}, 0
            if "rust" in g:
                r = subprocess.run([CHK, "gen"] + [str(a) for a in g["rust"]] + [part], capture_output=True, text=True)
                if r.returncode != 0:
                    raise ToolError("chk gen failed: " + r.stderr[-1000:])
                return part, {"rust": g["rust"][0], "behaviours": count_lines(part)}, 0
            gcfg = dict(cfg, **g["cfg"]) if g.get("cfg") else cfg
            gdefaults = dict(defaults, cfg=cfg_json(gcfg)) if g.get("cfg") else defaults
            consts = {} if g.get("raw_consts") else dict(base_consts(gcfg, ops or [], name))
            consts.update(g.get("consts", {}))
            body = GEN_CFG_HEAD + "INVARIANT %s\n" % g.get("emit", "EmitAll")
            for xi in g.get("extra_inv", []) if isinstance(g.get("extra_inv"), list) else ([g["extra_inv"]] if g.get("extra_inv") else []):
                body += "INVARIANT %s\n" % xi
            if g.get("constraint"):
                body += "CONSTRAINT %s\n" % g["constraint"]
            if g.get("view"):
                body += "VIEW %s\n" % g["view"]
            gname = "G%d_%s" % (gi, g["base"])
            n, states, secs = tlc_generate(d, gname, g["base"], consts, body, part, defaults=gdefaults,
                                           simulate=g.get("simulate"), seed=self.seed, append=False,
                                           timeout=g.get("timeout", 1800 if self.quick else 7200), workers=g.get("workers") or 4,
                                           heap="3g" if self.quick else "8g")
            return part, {"spec": g["base"], "behaviours": n, "tlc_states": states, "secs": round(secs, 1),
                          "mode": "simulate" if g.get("simulate") else "exhaustive",
                          "bounds": {k: v for k, v in g.get("consts", {}).items() if isinstance(v, (int, str))}}, states

        with ThreadPoolExecutor(max_workers=4) as ex:
            results = list(ex.map(lambda t: run_gen(*t), list(enumerate(gens))))
        with open(beh, "w") as fo:
            for (part, rec, states) in results:
                with open(part) as fi:
                    shutil.copyfileobj(fi, fo)
                os.unlink(part)
                self.cov["generator_states"] += states
                jobrec["generators"].append(rec)
        if self.limit:
            # selftest mode: a spread sample of the generated behaviours
            lines = open(beh).read().splitlines()
            if len(lines) > self.limit:
                step = len(lines) / float(self.limit)
                lines = [lines[int(i * step)] for i in range(self.limit)]
                open(beh, "w").write("\n".join(lines) + "\n")
        nbeh = count_lines(beh)
        if nbeh == 0:
            raise ToolError("job %s generated no behaviours" % name)
        trace = os.path.join(d, "trace.ndjson")
        hsecs = run_harness(beh, trace, cli=cli, fmt_hooks=fmt_hooks, env=env)
        if env:
            jobrec["process_env"] = env
        jobrec["behaviours"] = nbeh
        jobrec["harness_secs"] = round(hsecs, 1)
        # non-triviality and samples are measured on the recorded trace
        self._scan_trace(trace, nontrivial, sample_filter)
        if self.corrupt and name != "known-finding-examples":      # the pinned examples of recorded findings are not a test bed
            self.corrupt_result = self.corrupt(self, d, trace, invariants)
            raise StopSelftest()
        skip = []
        retried = False
        while True:
            res = tlc_validate(d, trace, invariants + (["Conf_All"] if conform else []), skip=skip, name=trace_module,
                               timeout=validate_timeout if self.quick else 4 * 3600, shards=shards)
            for layer, whos in res.get("drift", {}).items():
                dr = self.cov.setdefault("drift", {})
                dr[layer] = dr.get(layer, 0) + len(whos)
                log("DRIFT [%s] job %s: %d behaviours where the code differs from Layer I (%s), e.g. %s" % (
                    self.prop, name, len(whos), layer, whos[0]))
            if conform:
                self.cov["conformance_checked"] = self.cov.get("conformance_checked", 0) + count_lines(trace)
            self.cov["states"] += res["states"]
            self.cov["transitions"] += res["transitions"]
            for (kprop, kid), whos in res.get("known", {}).items():
                listed = [f for f in self.known if f.get("status") == "open" and f.get("id") == kid and f.get("property") == kprop]
                if not listed:
                    raise ToolError("specification reports finding %s/%s that known_findings.json does not list" % (kprop, kid))
                self.cov["known_findings_hit"] += len(whos)
                if kid not in self.kf_printed:
                    self.kf_printed.add(kid)
                    print("KNOWN-FINDING: property=%s %s (e.g. behaviour %s; %d matching behaviours in job %s)" % (
                        kprop, listed[0].get("what", kid), whos[0], len(whos), name), flush=True)
            if res["ok"]:
                break
            if res["inv"] and res["b"]:
                b = read_line(trace, res["b"])
                hit = [f for f in self.known if finding_matches(f, self.prop, b)]
                if hit:
                    print("KNOWN-FINDING: property=%s %s" % (self.prop, hit[0].get("what", "")), flush=True)
                    self.cov["known_findings_hit"] += 1
                    skip.append(res["b"])
                    if len(skip) > 200:
                        raise ToolError("too many known-finding matches")
                    continue
                replay = self._write_replay(b, res, d)
                self.violations += 1
                jobrec["violation"] = {"invariant": res["inv"], "behaviour": b.get("id"), "replay": replay}
                self.cov["jobs"].append(jobrec)
                raise Violation(self.prop, replay)
            if not res["deadlock"] and not retried:
                # a TLC run that dies without a verdict (memory pressure from concurrent runs, I/O) is retried once
                retried = True
                log("[%s] job %s: TLC ended without a verdict (%s); retrying once" % (self.prop, name, (res["error"] or "")[:160]))
                time.sleep(5)
                continue
            raise ToolError("trace validation failed in job %s: %s (behaviour %s; see %s)" % (
                name, res["error"], res["b"], res["outp"]))
        self._vacuity_sample(d, trace, nbeh, name, trace_module)
        self.cov["traces_validated_against_impl"] += nbeh - len(skip)
        self.cov["evaluations"] += nbeh
        jobrec["validate_secs"] = round(res["secs"], 1)
        jobrec["tlc_states"] = res["states"]
        self.cov["jobs"].append(jobrec)
        log("[%s] job %s: %d behaviours, %d states, gen+harness+tlc ok (%.1fs since start)" % (
            self.prop, name, nbeh, res["states"], time.time() - self.t0))
        if not os.environ.get("VERIF_KEEP"):
            shutil.rmtree(d, ignore_errors=True)
        return nbeh

    def mc(self, name, module, consts, invariants, view=None, constraint=None, workers=None, timeout=1800,
           init="Init", nxt="Next"):
        """Model checking of Layer I against Layer R (no code involved).  A failure here is a tool error: either
        the transcription or the reference is wrong - the code is judged by the trace checks only."""
        from vlib import gen_module, run_tlc, tlc_stats
        self.jobno += 1
        d = workdir("%s_%s_p%d_%02d_mc_%s" % (self.prop, self.tier, os.getpid(), self.jobno, name))
        cfgtext = "INIT %s\nNEXT %s\nCHECK_DEADLOCK FALSE\n" % (init, nxt)
        for inv in invariants:
            cfgtext += "INVARIANT %s\n" % inv
        if view:
            cfgtext += "VIEW %s\n" % view
        if constraint:
            cfgtext += "CONSTRAINT %s\n" % constraint
        cfgtext += gen_module(d, "MCRUN", module, consts)
        rc, outp, secs = run_tlc(d, "MCRUN", cfgtext, timeout=timeout if self.quick else 4 * 3600, workers=workers)
        gen, dist = tlc_stats(outp)
        text = open(outp, errors="replace").read()
        if rc != 0 or "No error has been found" not in text:
            raise ToolError("model checking %s (%s) failed: Layer I does not satisfy Layer R, or the model is broken; see %s\n%s"
                            % (name, module, outp, text[-1500:]))
        self.cov["states"] += dist
        self.cov["transitions"] += gen
        self.cov.setdefault("model_checking", []).append(
            {"name": name, "module": module, "invariants": invariants, "distinct_states": dist, "states_generated": gen,
             "view": view, "secs": round(secs, 1),
             "bounds": {k: v for k, v in consts.items() if isinstance(v, (int, str))}})
        log("[%s] model checking %s: %d distinct states, no error (%.1fs)" % (self.prop, name, dist, secs))
        if not os.environ.get("VERIF_KEEP"):
            shutil.rmtree(d, ignore_errors=True)
        return dist

    def _vacuity_sample(self, d, trace, nbeh, name, trace_module):
        """TLC evaluates the antecedent App_<prop> on a spread sample of the job's behaviours (vacuity guard)"""
        k = min(nbeh, 200)
        lines = []
        step = nbeh / float(k)
        want = set(int(i * step) for i in range(k))
        sample = os.path.join(d, "sample.ndjson")
        with open(trace) as f, open(sample, "w") as fo:
            for i, line in enumerate(f):
                if i in want:
                    fo.write(line)
        try:
            res = tlc_validate(d, sample, ["Applies_" + self.prop], name=trace_module, shards=2, timeout=600)
        except ToolError:
            return
        if not res["ok"]:
            return
        a = len(res.get("applies", ()))
        va = self.cov.setdefault("antecedent_sample", {"sampled": 0, "antecedent_true": 0, "per_job": {}})
        va["sampled"] += k
        va["antecedent_true"] += a
        va["per_job"][name] = "%d/%d" % (a, k)

    def _scan_trace(self, trace, nontrivial, sample_filter):
        taken = 0
        with open(trace) as f:
            for line in f:
                b = json.loads(line)
                for e in b.get("events", []):
                    if e.get("split_ok") is False:
                        # the header lines of the pretty list are not part of any property; the harness splits on them
                        raise ToolError("the pretty list could not be split into items: its header format changed, "
                                        "update split_pretty in harness/src/run.rs (behaviour %s)" % b.get("id"))
                    if e.get("ev") == "ToolError":
                        raise ToolError("harness: %s (behaviour %s)" % (e.get("what"), b.get("id")))
                if nontrivial is None or nontrivial(b):
                    self.nontrivial.add(sha(json.dumps([b.get("src"), b.get("cfg"), b.get("ops")])))
                    if taken < 2 and len(self.cov["samples"]) < 8 and (sample_filter is None or sample_filter(b)):
                        self.cov["samples"].append(self._sample(b))
                        taken += 1

    def _sample(self, b):
        dcd = decode_behaviour(b)
        evs = dcd.get("events", [])
        brief = []
        for e in evs[:12]:
            e2 = {k: v for k, v in e.items() if k in ("ev", "op", "stage", "out", "at", "ready", "exit", "to", "name")}
            if "items" in e:
                e2["items"] = [{"lr": it.get("lr"), "status": it.get("status")} for it in e["items"]][:6]
            brief.append(e2)
        c = dcd.get("cfg", {})
        return {"id": dcd.get("id"), "src": dcd.get("src"), "cfg": c, "ops": [o.get("op") for o in dcd.get("ops", [])],
                "observed": brief}

    def _write_replay(self, b, res, d):
        rd = os.path.join(VERIF, "replays", self.prop)
        os.makedirs(rd, exist_ok=True)
        key = sha(json.dumps([b.get("src"), b.get("cfg"), b.get("ops")]))
        path = os.path.join(rd, key + ".json")
        rec = {"property": self.prop, "invariant": res["inv"],
               "behaviour": {k: b[k] for k in ("id", "gen", "src", "cfg", "ops") if k in b},
               "decoded": decode_behaviour(b), "tlc_last_state": state_dump(res["outp"])}
        with open(path, "w") as f:
            json.dump(rec, f, indent=1, ensure_ascii=False)
        return path

    # -------------------------------------------------------------------------------------------
    def write_evidence(self, extra_cov=None):
        cov = dict(self.cov)
        cov["distinct_nontrivial"] = len(self.nontrivial)
        try:
            import checks
            cov["rule"] = checks.RULES.get(self.prop, "")
            if not self.assumptions:
                self.assumptions = list(checks.ASSUMPTIONS)
        except Exception:
            pass
        cov["checker_cmd"] = "bin/check %s --tier %s" % (self.prop, self.tier)
        if extra_cov:
            cov.update(extra_cov)
        if not cov["samples"]:
            cov["samples"] = [{"note": "no behaviour matched the sample filter"}]
        ev = {"property_id": self.prop, "tier": self.tier, "seed": self.seed, "level": self.level,
              "coverage": cov, "assumptions": self.assumptions, "wall_s": round(time.time() - self.t0, 1),
              "violations": self.violations}
        # experiments against a scratch tree (VERIF_REPO, bin/seeded run) must not overwrite the evidence of /repo
        evdir = os.path.join(VERIF, "evidence") if os.environ.get("VERIF_REPO", "/repo") == "/repo" else os.path.join(WORK, "evidence")
        os.makedirs(evdir, exist_ok=True)
        with open(os.path.join(evdir, self.prop + ".json"), "w") as f:
            json.dump(ev, f, indent=1, ensure_ascii=False)
