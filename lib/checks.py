"""Per-property check definitions: which generator spaces are explored and which invariants decide."""
from engine import Ctx, Violation
from vlib import Chars, cps

# delimiter pool (C07/C08/C01/C18): with / without self-overlap, multi-byte, identical, space-containing
PAIRS = [("<", ">"), ("<!-- <", "> -->"), ("/* <", "> */"), ("// --", "-- //"), ("aab", "bba"), ("%%", "%%"),
         ("《", "》"), ("<<", ">>"), (" <", " >"), ("-->", "<!--")]


def alphabet(ds, de, fillers):
    out = []
    for c in ds + de + fillers:
        if c not in out:
            out.append(c)
    return out


def has_tag_token(b):
    for e in b.get("events", []):
        rows = e.get("toks") or (e.get("rows") if e.get("stage") == "Tokens" else None)
        if rows and any(r[0] == 1 for r in rows):
            return True
    return False


def multi_token(b):
    for e in b.get("events", []):
        rows = e.get("toks") or (e.get("rows") if e.get("stage") == "Tokens" else None)
        if rows and len(rows) >= 2:
            return True
    return False


def chars_jobs(ctx, invariants, ops, nontrivial, pairs_quick=4):
    """G_chars for a choice of delimiter pairs; quick rotates the pool by seed."""
    pool = PAIRS
    if ctx.quick:
        k = ctx.seed % len(pool)
        rot = pool[k:] + pool[:k]
        # always keep a 1-char pair and a long self-overlapping pair in the quick set
        chosen = [("<", ">"), ("<!-- <", "> -->")]
        for p in rot:
            if p not in chosen and len(chosen) < pairs_quick:
                chosen.append(p)
    else:
        chosen = pool
    for (ds, de) in chosen:
        nchars = len(set(ds + de))
        if nchars <= 2:
            al = alphabet(ds, de, "a \né😀/")
            n = 5 if ctx.quick else 7
        else:
            al = alphabet(ds, de, "aé")
            n = 6 if ctx.quick else 8
            if len(al) >= 8 or (ctx.quick and (ds, de) != chosen[1]):
                n -= 1
        ctx.job("chars[%s|%s]" % (ds, de),
                gens=[{"base": "GenChars", "consts": {"Alphabet": Chars("".join(al)), "N": n}}],
                invariants=invariants, ops=ops, cfg={"ds": ds, "de": de}, nontrivial=nontrivial)


def delim_atoms(ds, de, extra=("a", " ")):
    atoms = []
    for d in (ds, de):
        for k in range(1, len(d) + 1):
            if d[:k] not in atoms:
                atoms.append(d[:k])
    for x in extra:
        if x not in atoms:
            atoms.append(x)
    return atoms


def atoms_jobs(ctx, invariants, ops, nontrivial, pairs=None, extra=("a", " ", "é")):
    """G_atoms over delimiter prefixes: reaches complete tags (and failed partial matches) for long delimiters"""
    pool = pairs or [p for p in PAIRS if len(p[0]) > 1]
    if ctx.quick:
        k = ctx.seed % len(pool)
        pool = [("<!-- <", "> -->")] + [p for p in (pool[k:] + pool[:k]) if p != ("<!-- <", "> -->")][:2]
    for (ds, de) in pool:
        atoms = delim_atoms(ds, de, extra)
        budget = 45000 if ctx.quick else 600000
        n = 2
        while sum(len(atoms) ** i for i in range(1, n + 2)) <= budget:
            n += 1
        ctx.job("atoms[%s|%s]" % (ds, de),
                gens=[{"base": "GenAtoms", "consts": {"Atoms": [Chars(x) for x in atoms], "N": n}}],
                invariants=invariants, ops=ops, cfg={"ds": ds, "de": de}, nontrivial=nontrivial)


def check_C07(ctx):
    chars_jobs(ctx, ["Inv_C07"], [{"op": "tokenize"}], multi_token)
    atoms_jobs(ctx, ["Inv_C07"], [{"op": "tokenize"}], multi_token)
    junk_jobs(ctx, ["Inv_C07"], [{"op": "tokenize"}], multi_token)


def check_C08(ctx):
    chars_jobs(ctx, ["Inv_C08"], [{"op": "tokenize"}], has_tag_token)
    atoms_jobs(ctx, ["Inv_C08"], [{"op": "tokenize"}], has_tag_token)
    junk_jobs(ctx, ["Inv_C08"], [{"op": "tokenize"}], has_tag_token)


def junk_jobs(ctx, invariants, ops, nontrivial, count=None, maxlen=None):
    import json
    from engine import DEFAULT_CFG
    from vlib import cfg_json
    n = count or (300 if ctx.quick else 20000)
    ml = maxlen or (160 if ctx.quick else 400)
    gens = []
    for i, (ds, de) in enumerate([("<", ">"), ("<!-- <", "> -->"), ("《", "》"), ("%%", "%%")]):
        cfg = dict(DEFAULT_CFG, ds=ds, de=de)
        gens.append({"rust": ["junk", ctx.seed * 16 + i, n, 20, ml, json.dumps(cfg_json(cfg)), json.dumps(ops)]})
    ctx.job("junk", gens=gens, invariants=invariants, ops=ops, nontrivial=nontrivial)


def check_C01(ctx):
    ops = [{"op": "clean"}, {"op": "list"}, {"op": "list_json"}, {"op": "list_all"}, {"op": "list_all_json"}]
    chars_jobs(ctx, ["Inv_C01"], ops, None, pairs_quick=3)
    junk_jobs(ctx, ["Inv_C01"], ops, None)



PAST = "2000-01-01 00:00:00"
FUTURE = "2999-01-01 00:00:00"
TOS = ["2001-01-01 00:00:00", "2002-01-01 00:00:00", "2003-01-01 00:00:00", "2004-01-01 00:00:00"]
MNAMES = ["m1", "m2", "m3", "m4"]
K = {"T1": ["T1", False], "T2": ["T2", False], "T3": ["T3", False], "T1u": ["T1", True], "T2u": ["T2", True], "T3u": ["T3", True],
     "M1": ["M1", False], "M2": ["M2", False], "M3": ["M3", False], "M1u": ["M1", True], "M2u": ["M2", True],
     "R": ["R", False], "P": ["P", False], "S": ["S", False], "U": ["U", False], "T": ["T", False], "F": ["F", False],
     "Ru": ["R", True], "Pu": ["P", True], "Tu": ["T", True], "Su": ["S", True]}


def lines_gen(L, D, E, kinds, unit="  ", base=0, free=(), ws=(), blank=True, suffix="", simulate=None):
    from vlib import TlaSet
    g = {"base": "GenLines", "constraint": "Feasible",
         "consts": {"L": L, "D": D, "E": E, "Kinds": TlaSet([K[k] for k in kinds]), "Unit": Chars(unit), "Base": base,
                    "FreeInd": TlaSet(list(free)), "WsLens": TlaSet(list(ws)), "Blank": blank, "Suffix": Chars(suffix),
                    "PastTo": Chars(PAST), "FutureTo": Chars(FUTURE),
                    "Tos": [Chars(t) for t in TOS], "Names": [Chars(n) for n in MNAMES]}}
    if simulate:
        g["simulate"] = simulate
    return g


def has_ready(b):
    """non-trivial: something was removed (clean output differs from the source) or something is listed"""
    for e in b.get("events", []):
        if e.get("ev") == "Return":
            if "items" in e:
                if e["items"]:
                    return True
            elif e.get("out") != b.get("src"):
                return True
    return False


LIST_OPS = [{"op": "clean"}, {"op": "list_json"}, {"op": "list"}, {"op": "list_all_json"}, {"op": "list_all"}]


def block_jobs(ctx, invariants, ops, cfgs=None):
    q = ctx.quick
    cfg = {"ds": "<", "de": ">"}
    sets = [
        ("block-mixed", [lines_gen(6 if q else 7, 2, 2 if q else 3, ["R", "P", "S", "U"], ws=(2,))]),
        ("block-one", [lines_gen(7 if q else 9, 1, 1, ["R"], base=0, ws=(1,)),
                       lines_gen(7 if q else 9, 1, 1, ["R"], base=1, ws=(1,))]),
        ("block-two", [lines_gen(8 if q else 10, 1, 2, ["R"], base=0, ws=()),
                       lines_gen(7 if q else 9, 2, 2, ["R", "P"], base=1, ws=())]),
        ("block-tab-mb", [lines_gen(6 if q else 7, 2, 2, ["R", "P"], unit="\t", base=1, ws=(1,)),
                          lines_gen(6 if q else 7, 2, 2, ["T", "F"], unit="    ", base=0, suffix="é")]),
        ("block-sim", [lines_gen(14, 3, 5, ["R", "P", "S", "U", "T", "F"], ws=(2,), base=ctx.seed % 2,
                                 simulate=(100 if q else 20000, 14))]),
    ]
    for (name, gens) in sets:
        ctx.job(name, gens=gens, invariants=invariants, ops=ops, cfg=cfg, nontrivial=has_ready)
    # the same family under a long, space-containing delimiter pair
    ctx.job("block-html", gens=[lines_gen(6 if q else 7, 2, 2, ["R", "P", "T"], ws=(2,))], invariants=invariants, ops=ops,
            cfg={"ds": "<!-- <", "de": "> -->"}, nontrivial=has_ready)


def unwrap_jobs(ctx, invariants, ops):
    q = ctx.quick
    cfg = {"ds": "<", "de": ">"}
    sets = [
        ("unwrap-one", [lines_gen(8, 1, 1, ["Ru"], free=(1,), blank=True),
                        lines_gen(7, 1, 1, ["Ru"], free=(0, 2), blank=False)] if q else
                       [lines_gen(8, 1, 1, ["Ru"], free=(0, 1, 2), blank=True), lines_gen(10, 1, 1, ["Ru"], free=(1,), blank=True)]),
        ("unwrap-mixed", [lines_gen(7 if q else 8, 2, 2, ["Ru", "R", "P"], free=(1,), blank=False)]),
        ("unwrap-nested", [lines_gen(10 if q else 12, 2, 2, ["Ru"], blank=False),
                           lines_gen(9 if q else 11, 2, 2, ["Ru", "Pu"], base=1, blank=False)]),
        ("unwrap-tab", [lines_gen(7 if q else 8, 1, 1, ["Tu"], unit="\t", free=(0, 2) if q else (0, 1, 2), blank=False, suffix="あ")]),
        ("unwrap-sim", [lines_gen(16, 3, 4, ["Ru", "R", "P", "Pu", "S"], free=(0, 1, 2), ws=(2,),
                                  simulate=(100 if q else 20000, 16))]),
    ]
    for (name, gens) in sets:
        ctx.job(name, gens=gens, invariants=invariants, ops=ops, cfg=cfg, nontrivial=has_ready)


def inline_jobs(ctx, invariants, ops):
    q = ctx.quick
    for (ds, de) in [("<", ">"), ("/* <", "> */")]:
        atoms = [ds + "rm name='a'" + de, ds + "rm name='b'" + de, ds + "/rm" + de, "x", "y;", "\n", "  ", "é"]
        ctx.job("inline[%s|%s]" % (ds, de),
                gens=[{"base": "GenAtoms", "consts": {"Atoms": [Chars(a) for a in atoms], "N": 5 if q else 6}}],
                invariants=invariants, ops=ops, cfg={"ds": ds, "de": de}, nontrivial=has_ready)


def check_C02(ctx):
    block_jobs(ctx, ["Inv_C02"], [{"op": "clean"}])
    unwrap_jobs(ctx, ["Inv_C02"], [{"op": "clean"}])
    inline_jobs(ctx, ["Inv_C02"], [{"op": "clean"}])
    junk_jobs(ctx, ["Inv_C02"], [{"op": "clean"}], has_ready)


def check_C03(ctx):
    block_jobs(ctx, ["Inv_C03"], [{"op": "clean"}])
    unwrap_jobs(ctx, ["Inv_C03"], [{"op": "clean"}])
    inline_jobs(ctx, ["Inv_C03"], [{"op": "clean"}])
    junk_jobs(ctx, ["Inv_C03"], [{"op": "clean"}], has_ready)


def check_C04(ctx):
    block_jobs(ctx, ["Inv_C04"], [{"op": "clean"}])
    unwrap_jobs(ctx, ["Inv_C04"], [{"op": "clean"}])
    inline_jobs(ctx, ["Inv_C04"], [{"op": "clean"}])
    chars_jobs(ctx, ["Inv_C04"], [{"op": "clean"}], None, pairs_quick=2)
    junk_jobs(ctx, ["Inv_C04"], [{"op": "clean"}], None)


def check_C11(ctx):
    unwrap_jobs(ctx, ["Inv_C11"], [{"op": "clean"}])


def check_C12(ctx):
    unwrap_jobs(ctx, ["Inv_C12"], [{"op": "clean"}])


def check_C13(ctx):
    block_jobs(ctx, ["Inv_C13"], [{"op": "clean"}])


def check_C14(ctx):
    block_jobs(ctx, ["Inv_C14"], [{"op": "clean"}])
    unwrap_jobs(ctx, ["Inv_C14"], [{"op": "clean"}])
    inline_jobs(ctx, ["Inv_C14"], [{"op": "clean"}])


def check_C15(ctx):
    ops = [{"op": "clean"}, {"op": "list_json"}, {"op": "list"}, {"op": "list_json"}]
    block_jobs(ctx, ["Inv_C15"], ops)
    unwrap_jobs(ctx, ["Inv_C15"], ops)
    inline_jobs(ctx, ["Inv_C15"], ops)


def check_C16(ctx):
    ops = [{"op": "list_json"}, {"op": "list"}, {"op": "list_all_json"}, {"op": "list_all"}]
    block_jobs(ctx, ["Inv_C16"], ops)
    unwrap_jobs(ctx, ["Inv_C16"], ops)
    inline_jobs(ctx, ["Inv_C16"], ops)


def check_C17(ctx):
    ops = [{"op": "list_json"}, {"op": "list_all_json"}]
    block_jobs(ctx, ["Inv_C17"], ops)
    unwrap_jobs(ctx, ["Inv_C17"], ops)
    ctx.job("pending-many", gens=[lines_gen(9 if ctx.quick else 11, 2, 4, ["R", "P"], blank=False)],
            invariants=["Inv_C17"], ops=ops, cfg={"ds": "<", "de": ">"}, nontrivial=has_ready)


CHECKS = {"C01": check_C01, "C02": check_C02, "C03": check_C03, "C04": check_C04, "C07": check_C07, "C08": check_C08,
          "C11": check_C11, "C12": check_C12, "C13": check_C13, "C14": check_C14, "C15": check_C15, "C16": check_C16,
          "C17": check_C17}
NEEDS_CLI = {"C05", "C06", "C20", "C01"}
