"""Per-property check definitions: which generator spaces are explored and which invariants decide."""
from engine import Ctx, Violation
from vlib import Chars, cps

# delimiter pool (C07/C08/C01/C18): with / without self-overlap, multi-byte, identical, space-containing
PAIRS = [("<", ">"), ("<!-- <", "> -->"), ("/* <", "> */"), ("// --", "-- //"), ("aab", "bba"), ("%%", "%%"),
         ("《", "》"), ("<<", ">>"), (" <", " >"), ("-->", "<!--")]


def alphabet(ds, de, fillers):
    out = []
    for c in ds + de + fillers:
        if c not in out:
            out.append(c)
    return out


def has_tag_token(b):
    for e in b.get("events", []):
        rows = e.get("toks") or (e.get("rows") if e.get("stage") == "Tokens" else None)
        if rows and any(r[0] == 1 for r in rows):
            return True
    return False


def multi_token(b):
    for e in b.get("events", []):
        rows = e.get("toks") or (e.get("rows") if e.get("stage") == "Tokens" else None)
        if rows and len(rows) >= 2:
            return True
    return False


def chars_jobs(ctx, invariants, ops, nontrivial, pairs_quick=4):
    """G_chars for a choice of delimiter pairs; quick rotates the pool by seed."""
    pool = PAIRS
    if ctx.quick:
        k = ctx.seed % len(pool)
        rot = pool[k:] + pool[:k]
        # always keep a 1-char pair and a long self-overlapping pair in the quick set
        chosen = [("<", ">"), ("<!-- <", "> -->")]
        for p in rot:
            if p not in chosen and len(chosen) < pairs_quick:
                chosen.append(p)
    else:
        chosen = pool
    for (ds, de) in chosen:
        nchars = len(set(ds + de))
        if nchars <= 2:
            al = alphabet(ds, de, "a \né😀/")
            n = 5 if ctx.quick else 7
        else:
            al = alphabet(ds, de, "aé")
            n = 6 if ctx.quick else 8
            if len(al) >= 8 or (ctx.quick and (ds, de) != chosen[1]):
                n -= 1
        ctx.job("chars[%s|%s]" % (ds, de),
                gens=[{"base": "GenChars", "consts": {"Alphabet": Chars("".join(al)), "N": n}}],
                invariants=invariants, ops=ops, cfg={"ds": ds, "de": de}, nontrivial=nontrivial)


def delim_atoms(ds, de, extra=("a", " ")):
    atoms = []
    for d in (ds, de):
        for k in range(1, len(d) + 1):
            if d[:k] not in atoms:
                atoms.append(d[:k])
    for x in extra:
        if x not in atoms:
            atoms.append(x)
    return atoms


def atoms_jobs(ctx, invariants, ops, nontrivial, pairs=None, extra=("a", " ", "é")):
    """G_atoms over delimiter prefixes: reaches complete tags (and failed partial matches) for long delimiters"""
    pool = pairs or [p for p in PAIRS if len(p[0]) > 1]
    if ctx.quick:
        k = ctx.seed % len(pool)
        pool = [("<!-- <", "> -->")] + [p for p in (pool[k:] + pool[:k]) if p != ("<!-- <", "> -->")][:2]
    for (ds, de) in pool:
        atoms = delim_atoms(ds, de, extra)
        budget = 45000 if ctx.quick else 600000
        n = 2
        while sum(len(atoms) ** i for i in range(1, n + 2)) <= budget:
            n += 1
        ctx.job("atoms[%s|%s]" % (ds, de),
                gens=[{"base": "GenAtoms", "consts": {"Atoms": [Chars(x) for x in atoms], "N": n}}],
                invariants=invariants, ops=ops, cfg={"ds": ds, "de": de}, nontrivial=nontrivial)


def check_C07(ctx):
    chars_jobs(ctx, ["Inv_C07"], [{"op": "tokenize"}], multi_token)
    atoms_jobs(ctx, ["Inv_C07"], [{"op": "tokenize"}], multi_token)
    junk_jobs(ctx, ["Inv_C07"], [{"op": "tokenize"}], multi_token)


def check_C08(ctx):
    chars_jobs(ctx, ["Inv_C08"], [{"op": "tokenize"}], has_tag_token)
    atoms_jobs(ctx, ["Inv_C08"], [{"op": "tokenize"}], has_tag_token)
    junk_jobs(ctx, ["Inv_C08"], [{"op": "tokenize"}], has_tag_token)


def junk_jobs(ctx, invariants, ops, nontrivial, count=None, maxlen=None):
    import json
    from engine import DEFAULT_CFG
    from vlib import cfg_json
    n = count or (300 if ctx.quick else 20000)
    ml = maxlen or (160 if ctx.quick else 400)
    gens = []
    for i, (ds, de) in enumerate([("<", ">"), ("<!-- <", "> -->"), ("《", "》"), ("%%", "%%")]):
        cfg = dict(DEFAULT_CFG, ds=ds, de=de)
        gens.append({"rust": ["junk", ctx.seed * 16 + i, n, 20, ml, json.dumps(cfg_json(cfg)), json.dumps(ops)]})
    ctx.job("junk", gens=gens, invariants=invariants, ops=ops, nontrivial=nontrivial)


def check_C01(ctx):
    ops = [{"op": "clean"}, {"op": "list"}, {"op": "list_json"}, {"op": "list_all"}, {"op": "list_all_json"}]
    chars_jobs(ctx, ["Inv_C01"], ops, None, pairs_quick=3)
    junk_jobs(ctx, ["Inv_C01"], ops, None)


CHECKS = {"C01": check_C01, "C07": check_C07, "C08": check_C08}
NEEDS_CLI = {"C05", "C06", "C20", "C01"}
