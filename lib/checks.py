"""Per-property check definitions: which generator spaces are explored and which invariants decide."""
from engine import Ctx, Violation
from vlib import Chars, cps, TlaSet

# delimiter pool (C07/C08/C01/C18): with / without self-overlap, multi-byte, identical, space-containing
PAIRS = [("<", ">"), ("<!-- <", "> -->"), ("/* <", "> */"), ("// --", "-- //"), ("aab", "bba"), ("%%", "%%"),
         ("《", "》"), ("<<", ">>"), (" <", " >"), ("-->", "<!--"), ("ああい", "いいあ"), ("éé-", "-éé"),
         ("aabaac", "-- -->"), ("--", "-->"), ("{%", "%")]   # start delimiter a prefix of the end delimiter / end delimiter inside the start delimiter          # borders within borders: the fallback has to walk the whole failure chain


HARD_PAIRS = [("ああい", "いいあ"), ("éé-", "-éé"), ("※※ <", "> ※")]


def alphabet(ds, de, fillers):
    out = []
    for c in ds + de + fillers:
        if c not in out:
            out.append(c)
    return out


def has_tag_token(b):
    for e in b.get("events", []):
        rows = e.get("toks") or (e.get("rows") if e.get("stage") == "Tokens" else None)
        if rows and any(r[0] == 1 for r in rows):
            return True
    return False


def multi_token(b):
    for e in b.get("events", []):
        rows = e.get("toks") or (e.get("rows") if e.get("stage") == "Tokens" else None)
        if rows and len(rows) >= 2:
            return True
    return False


def chars_jobs(ctx, invariants, ops, nontrivial, pairs_quick=4, shorter=0):
    """G_chars for a choice of delimiter pairs; quick rotates the pool by seed."""
    pool = PAIRS
    if ctx.quick:
        k = ctx.seed % len(pool)
        rot = pool[k:] + pool[:k]
        # always keep a 1-char pair and a long self-overlapping pair in the quick set
        chosen = [("<", ">"), ("<!-- <", "> -->")][:max(1, pairs_quick)]
        for p in rot:
            if p not in chosen and len(chosen) < pairs_quick:
                chosen.append(p)
    else:
        chosen = pool
    for (ds, de) in chosen:
        nchars = len(set(ds + de))
        if nchars <= 2:
            al = alphabet(ds, de, "a \né😀/")
            n = 5 if ctx.quick else 7
        else:
            al = alphabet(ds, de, "aé")
            n = 6 if ctx.quick else 7
            if len(al) >= 8 or (ctx.quick and (len(chosen) < 2 or (ds, de) != chosen[1])):
                n -= 1
        ctx.job("chars[%s|%s]" % (ds, de),
                gens=[{"base": "GenChars", "consts": {"Alphabet": Chars("".join(al)), "N": n - shorter}}],
                invariants=invariants, ops=ops, cfg={"ds": ds, "de": de}, nontrivial=nontrivial)
    # characters with a special role elsewhere (byte order mark, NUL, line / paragraph separator, next line, form feed,
    # zero-width space) and characters whose code point equals a delimiter character modulo 256 (truncating casts)
    for (ds, de) in [("<", ">"), ("[[", "]]")][: 1 if ctx.quick and shorter else 2]:
        coll = "".join(chr(0x400 + ord(c)) for c in dict.fromkeys(ds[0] + de[0])) + chr(0x100 + ord(ds[0]))
        for (nm, extra) in [("specials", "\ufeff\x00\u2028\x0c"), ("colliders", coll + "a")]:
            al = alphabet(ds, de, extra)
            ctx.job("chars-%s[%s|%s]" % (nm, ds, de),
                    gens=[{"base": "GenChars", "consts": {"Alphabet": Chars("".join(al)), "N": (5 if ctx.quick else 6) - shorter}}],
                    invariants=invariants, ops=ops, cfg={"ds": ds, "de": de}, nontrivial=nontrivial)
    # the multi-byte delimiters that overlap themselves are in every run: over the delimiter's own characters plus one
    # filler the strings get long enough for every fallback position (character count vs. byte count of the part re-read)
    for (ds, de) in HARD_PAIRS:
        al = alphabet(ds, de, "a")
        budget = 4000 if ctx.quick else 250000
        n = 1
        while sum(len(al) ** k for k in range(n + 2)) <= budget:
            n += 1
        ctx.job("chars-overlap[%s|%s]" % (ds, de),
                gens=[{"base": "GenChars", "consts": {"Alphabet": Chars("".join(al)), "N": n - shorter}}],
                invariants=invariants, ops=ops, cfg={"ds": ds, "de": de}, nontrivial=nontrivial)


def delim_atoms(ds, de, extra=("a", " ")):
    atoms = []
    for d in (ds, de):
        for k in range(1, len(d) + 1):
            if d[:k] not in atoms:
                atoms.append(d[:k])
    for x in extra:
        if x not in atoms:
            atoms.append(x)
    return atoms


def atoms_jobs(ctx, invariants, ops, nontrivial, pairs=None, extra=("a", " ", "é")):
    """G_atoms over delimiter prefixes: reaches complete tags (and failed partial matches) for long delimiters"""
    pool = pairs or [p for p in PAIRS if len(p[0]) > 1]
    if ctx.quick:
        k = ctx.seed % len(pool)
        fixed = [("<!-- <", "> -->"), ("ああい", "いいあ"), ("aabaac", "-- -->")]   # a long ASCII pair, a multi-byte self-overlapping pair, nested borders: always
        pool = fixed + [p for p in (pool[k:] + pool[:k]) if p not in fixed][:2]
    for (ds, de) in pool:
        atoms = delim_atoms(ds, de, extra)
        budget = 45000 if ctx.quick else 600000
        n = 2
        while sum(len(atoms) ** i for i in range(1, n + 2)) <= budget:
            n += 1
        ctx.job("atoms[%s|%s]" % (ds, de),
                gens=[{"base": "GenAtoms", "consts": {"Atoms": [Chars(x) for x in atoms], "N": n}}],
                invariants=invariants, ops=ops, cfg={"ds": ds, "de": de}, nontrivial=nontrivial)


def check_C07(ctx):
    chars_jobs(ctx, ["Inv_C07"], [{"op": "tokenize"}], multi_token)
    atoms_jobs(ctx, ["Inv_C07"], [{"op": "tokenize"}], multi_token)
    junk_jobs(ctx, ["Inv_C07"], [{"op": "tokenize"}], multi_token)
    pump_job(ctx, ["Inv_C07"], [{"op": "tokenize"}], ["mb", "mb4", "open", "lines", "ready"], [300] if ctx.quick else [300, 3000], cores=(0,))
    repo_docs_job(ctx, ["Inv_C07"], [{"op": "tokenize"}])


def tok_model_checking(ctx):
    """Layer I tokenizer vs. the reference scan: bounded MC plus the product automaton (all string lengths)"""
    q = ctx.quick
    for (ds, de, al, n) in [("<", ">", "<>a é", 5 if q else 7), ("<!-- <", "> -->", "<!- >a", 6 if q else 8),
                            ("aab", "bba", "abx", 7 if q else 10), ("%%", "%%", "%a ", 7 if q else 10)]:
        ctx.mc("tok[%s|%s]" % (ds, de), "MC_Tok", {"DS": Chars(ds), "DE": Chars(de), "Alphabet": Chars(al), "N": n},
               ["ImplRefines", "KmpIsRef"])
    # ... and for every spelling used by the respelling and command-line jobs (C18, C20)
    more = [p for p in SPELLINGS + CLI_SPELLINGS if p not in PAIRS]
    for (ds, de) in PAIRS + more:
        al = "".join(dict.fromkeys(ds + de + "x"))
        ctx.mc("prod[%s|%s]" % (ds, de), "Prod_Tok", {"DS": Chars(ds), "DE": Chars(de), "Alphabet": Chars(al)},
               ["Agree"], view="View", workers=1)


def witness_job(ctx, invariants):
    """spec -> impl: one witness string per transition of each product automaton, replayed on the real tokenizer"""
    gens = []
    for (ds, de) in PAIRS:
        al = "".join(dict.fromkeys(ds + de + "xé"))
        gens.append({"base": "Prod_Tok", "raw_consts": True, "emit": "EmitWitness", "view": "View", "workers": 1,
                     "consts": {"DS": Chars(ds), "DE": Chars(de), "Alphabet": Chars(al)}, "cfg": {"ds": ds, "de": de}})
    ctx.job("product-witnesses", gens=gens, invariants=invariants, ops=[{"op": "tokenize"}], nontrivial=multi_token, conform=True)


def check_C08(ctx):
    tok_model_checking(ctx)
    witness_job(ctx, ["Inv_C08"])
    chars_jobs(ctx, ["Inv_C08"], [{"op": "tokenize"}], has_tag_token)
    atoms_jobs(ctx, ["Inv_C08"], [{"op": "tokenize"}], has_tag_token)
    junk_jobs(ctx, ["Inv_C08"], [{"op": "tokenize"}], has_tag_token)
    pump_job(ctx, ["Inv_C08"], [{"op": "tokenize"}], ["mb", "mb4", "open", "lines", "ready"], [300] if ctx.quick else [300, 3000], cores=(0,))
    repo_docs_job(ctx, ["Inv_C08"], [{"op": "tokenize"}])


def junk_jobs(ctx, invariants, ops, nontrivial, count=None, maxlen=None):
    import json
    from engine import DEFAULT_CFG
    from vlib import cfg_json
    n = count or (300 if ctx.quick else 20000)
    ml = maxlen or (160 if ctx.quick else 400)
    gens = []
    for i, (ds, de) in enumerate([("<", ">"), ("<!-- <", "> -->"), ("《", "》"), ("%%", "%%")]):
        cfg = dict(DEFAULT_CFG, ds=ds, de=de)
        gens.append({"rust": ["junk", ctx.seed * 16 + i, n, 20, ml, json.dumps(cfg_json(cfg)), json.dumps(ops)]})
    ctx.job("junk", gens=gens, invariants=invariants, ops=ops, nontrivial=nontrivial)


def check_C01(ctx):
    ops = [{"op": "clean"}, {"op": "list"}, {"op": "list_json"}, {"op": "list_all"}, {"op": "list_all_json"}]
    q = ctx.quick
    chars_jobs(ctx, ["Inv_C01"], ops, None, pairs_quick=1 if q else 4, shorter=0 if q else 1)   # five operations per string
    # the characters of the tag grammar themselves: bodies beginning with '=', quotes in every position
    ctx.job("chars-grammar", gens=[{"base": "GenChars", "consts": {"Alphabet": Chars("<>=\"x "), "N": 6 if q else 7}}],
            invariants=["Inv_C01"], ops=ops, cfg={"ds": "<", "de": ">"}, nontrivial=None)
    # tags built from atoms: blank bodies, stray delimiters, elements with every kind of attribute, multi-byte ends
    for (ds, de) in ([("<", ">"), ("《", "》")] if q else [("<", ">"), ("《", "》"), ("<!-- <", "> -->"), ("%%", "%%"), (" <", " >")]):
        atoms = [ds, de, ds + "rm name='a'" + de, ds + "rm name='a' unwrap-block" + de, ds + "/rm" + de,
                 ds + "tl to='2000-01-01 00:00:00'" + de, ds + "/tl" + de, ds + " " + de, "x", "\n", " ", "é"]
        ctx.job("atoms[%s|%s]" % (ds, de),
                gens=[{"base": "GenAtoms", "consts": {"Atoms": [Chars(a) for a in atoms], "N": 4 if q else 5}}],
                invariants=["Inv_C01"], ops=ops, cfg={"ds": ds, "de": de}, nontrivial=has_tag_token)
    # unwrap-blocks with tags sitting on their wrapper lines (children merged into head and tail), nesting
    gens = [lines_gen(6 if q else 8, 3, 3, ["Ru", "R", "P"], blank=False),
            lines_gen(6 if q else 9, 2, 2, ["Ru", "Pu", "R"], blank=True, base=1),
            lines_gen(7 if q else 9, 2, 2, ["Ru"], blank=False, pairs=True, max_code=4),     # touching removed regions + unwrap
            lines_gen(6 if q else 8, 2, 2, ["Ru", "R"], blank=False, inline=True, max_code=2 if q else 3, base=1, edge="あ"),   # multi-byte characters glued to inline tags
            lines_gen(6 if q else 7, 2, 2, ["Ru", "R"], blank=False, tail=True, max_code=2, base=1, edge="😀"),
            lines_gen(14, 3, 5, ["Ru", "R", "P", "Pu", "T", "S"], free=(0, 2), ws=(2,), simulate=(40 if q else 2000, 14))]
    ctx.job("unwrap-wrapper-tags", gens=gens, invariants=["Inv_C01"], ops=ops, cfg={"ds": "<", "de": ">"}, nontrivial=has_ready)
    junk_jobs(ctx, ["Inv_C01"], ops, None)
    # bad configuration strings must not panic either
    ctx.job("odd-config", gens=[dict(lines_gen(5, 2, 2, ["T", "F", "R", "Ru"], blank=False),
                                     cfg={"off": off, "targets": targets, "now": [0, 0]})
                                for (off, targets) in [("", []), ("UTC", ["a"]), ("+25:00", ["", "a"])]],
            invariants=["Inv_C01"], ops=ops, cfg={"ds": "<", "de": ">"}, nontrivial=None)
    pump_job(ctx, ["Inv_C01"], ops, sorted(PUMP_UNITS), [257] if q else [100, 257, 1000])
    # the command itself: current instants written with and without a zone, in process zones with daylight saving, at
    # local times that do not exist (spring gap) or exist twice (autumn)
    for (nm, now) in [("gap-us", [19792, 9000]), ("fold-us", [20030, 5400]), ("gap-eu", [19813, 9000])][: 2 if q else 3]:
        ctx.job("cli-current[%s]" % nm,
                gens=[{"base": "GenCli", "consts": {"Docs": [Chars(d) for d in CLI_DOCS_DEFAULT[1:3]], "TargetPool": [Chars("a")],
                                                    "Zones": ["America/New_York", "EST5EDT,M3.2.0,M11.1.0", "Europe/Berlin", "CET-1CEST,M3.5.0,M10.5.0/3", "UTC"],
                                                    "Langs": [""], "OmitAll": True, "Part": "stdout", "Currents": TlaSet(["given", "naive", "garbage"]), "ArgForms": ["eq"], "Odds": [""]}}],
                invariants=["Inv_C01"], ops=[], cli=True,
                cfg={"ds": "<!-- <", "de": "> -->", "tl": "time-limited", "rm": "removal-marker", "off": "+00:00", "now": now, "targets": []},
                nontrivial=None)
    repo_docs_job(ctx, ["Inv_C01"], LIST_OPS)


PAST = "2000-01-01 00:00:00"
FUTURE = "2999-01-01 00:00:00"
TOS = ["2001-01-01 00:00:00", "2002-01-01 00:00:00", "2003-01-01 00:00:00", "2004-01-01 00:00:00"]
MNAMES = ["m1", "m2", "m3", "m4"]
K = {"T1": ["T1", False], "T2": ["T2", False], "T3": ["T3", False], "T1u": ["T1", True], "T2u": ["T2", True], "T3u": ["T3", True],
     "M1": ["M1", False], "M2": ["M2", False], "M3": ["M3", False], "M1u": ["M1", True], "M2u": ["M2", True],
     "R": ["R", False], "P": ["P", False], "S": ["S", False], "U": ["U", False], "T": ["T", False], "F": ["F", False],
     "Ru": ["R", True], "Pu": ["P", True], "Tu": ["T", True], "Su": ["S", True],
     "SP": ["SP", False], "SF": ["SF", False], "SPu": ["SP", True], "NV": ["NV", False], "NN": ["NN", False], "NVu": ["NV", True],
     "TB": ["TB", False], "TBu": ["TB", True], "RB": ["RB", False], "PB": ["PB", False], "RBu": ["RB", True],
     "US": ["US", False], "UST": ["UST", False], "USu": ["US", True], "UX": ["UX", False], "UP": ["UP", False], "XR": ["XR", False], "XT": ["XT", False], "UXu": ["UX", True]}


def lines_gen(L, D, E, kinds, unit="  ", base=0, free=(), ws=(), blank=True, suffix="", simulate=None, code_a="", code_b="",
              mb=False, max_code=99, empty_default=False, pairs=False, preamble=0, inline=False, pair_kind="R", eol="\n", tag_sep=" ", flag_val="", quote="'", flags_first=False, tail=False, pad="", wide=False, free_tags=True, tail_kinds=None, crossing=False, free_code=True, extra_attr="", eq_pad=("", ""), edge="", lead="", open_pad=True):
    from vlib import TlaSet
    g = {"base": "GenLines", "constraint": "Feasible",
         "consts": {"L": L, "D": D, "E": E, "Kinds": TlaSet([K[k] for k in kinds]), "Unit": Chars(unit), "Base": base,
                    "FreeInd": TlaSet(list(free)), "FreeTags": free_tags, "FreeCode": free_code, "WsLens": TlaSet(list(ws)), "Blank": blank, "Suffix": Chars(suffix), "CodeA": Chars(code_a), "CodeB": Chars(code_b), "MbCode": mb, "MaxCode": max_code, "EmptyDefault": empty_default, "PairLines": pairs, "Preamble": preamble,
                    "InlineTags": inline, "PairKind": K[pair_kind], "EOL": Chars(eol), "TagSep": Chars(tag_sep), "FlagVal": Chars(flag_val), "QuoteCh": ord(quote), "FlagsFirst": flags_first, "Crossing": crossing, "TailElems": tail, "TailKinds": TlaSet([K[k] for k in (tail_kinds or kinds)]), "TagPad": Chars(pad), "OpenPad": open_pad, "ExtraAttr": Chars(extra_attr), "EqPad": [Chars(eq_pad[0]), Chars(eq_pad[1])], "WideCode": wide, "EdgeCh": Chars(edge), "Lead": Chars(lead),
                    "PastTo": Chars(PAST), "FutureTo": Chars(FUTURE),
                    "Tos": [Chars(t) for t in TOS], "Names": [Chars(n) for n in MNAMES]}}
    if simulate:
        g["simulate"] = simulate
    return g


def has_ready(b):
    """non-trivial: something was removed (clean output differs from the source) or something is listed"""
    for e in b.get("events", []):
        if e.get("ev") == "Return":
            if "items" in e:
                if e["items"]:
                    return True
            elif e.get("out") != b.get("src"):
                return True
    return False


LIST_OPS = [{"op": "clean"}, {"op": "list_json"}, {"op": "list"}, {"op": "list_all_json"}, {"op": "list_all"}]


def kitchen_sink(ctx, kinds, L, n):
    """a simulated family with every generator dimension switched on; unit / suffix / tag separator rotate with the seed"""
    sd = ctx.seed
    return lines_gen(L, 3, 5, kinds, unit=["  ", "\t", " \t", "    "][sd % 4], base=sd % 2, free=(0, 1, 2), ws=(1, 2), blank=True,
                     suffix=["", "é", "あ"][sd % 3], tag_sep=[" ", "\n     "][(sd // 2) % 2], inline=True, pairs=True,
                     code_b=["", " = 1"][(sd // 3) % 2], flag_val=["", "='1'", '="true"'][(sd // 2) % 3], quote=["'", '"'][(sd + 1) % 2],
                     flags_first=(sd % 3 == 1), tail=True, pad=["", " "][(sd // 3) % 2],
                     extra_attr=["", " skipper", " Skip", " xunwrap-block", " names='a'", " unwrap-blocks"][sd % 6],
                     eq_pad=[("", ""), (" ", " "), ("", " "), (" ", "")][(sd // 2) % 4], edge=["", "あ", "😀"][(sd + 1) % 3], simulate=(n, L))


def block_jobs(ctx, invariants, ops, lite=False):
    """G_block: default-strategy elements, tags alone on their lines.  quick: one job; lite: smaller (heavy predicates)"""
    q = ctx.quick
    d = 2 if (q and lite) else 0
    html = {"ds": "<!-- <", "de": "> -->"}
    if q:
        gens = [lines_gen(5, 2, 2, ["R", "P", "S", "U"], ws=(2,)) if not lite else lines_gen(4, 2, 2, ["R", "P", "S", "U"], ws=(2,)),
                lines_gen(7 - d, 1, 1, ["R"], base=0, ws=(1,)),
                lines_gen(6 - d, 1, 1, ["R"], base=1, ws=(1,)),
                lines_gen(7 - d, 1, 2, ["R"], base=0, blank=True),
                lines_gen(6 - d, 2, 2, ["R", "P"], base=1, blank=False),
                lines_gen(5, 2, 2, ["R", "P"], unit="\t", base=1, ws=(1,)),
                lines_gen(5, 2, 2, ["T", "F"], unit="    ", base=0, suffix="é"),
                lines_gen(5 if lite else 6, 2, 2, ["R", "P"], base=1, ws=(2,), mb=True),       # lines of multi-byte characters only
                lines_gen(5, 2, 2, ["R", "P"], unit=" \t", base=1, ws=(2,)),                    # mixed space / tab indentation
                lines_gen(5 if lite else 6, 2, 2, ["R", "T"], base=1, blank=True, tag_sep="\n     "),   # opening tags spanning two lines
                lines_gen(4, 1, 1, ["R"], unit="\t ", base=2, blank=True),
                lines_gen(4, 2, 2, ["R", "S", "P"], blank=False, flag_val="='1'"),                   # valued flag attribute: skip='1'
                lines_gen(4, 2, 2, ["R", "S", "T"], blank=False, quote='"', flags_first=True),
                lines_gen(4, 2, 2, ["R", "P"], blank=True, tail=True, max_code=2),                      # elements behind code on one line
                lines_gen(4, 2, 2, ["R", "P"], blank=True, tail=True, max_code=2, base=1, edge="あ"),
                lines_gen(5, 2, 2, ["R", "P"], blank=False, inline=True, max_code=2, base=1, edge="é"),
                lines_gen(4, 2, 2, ["R", "P"], blank=True, tail=True, max_code=2, base=1, mb=True),        # nothing but multi-byte text in front of / behind an element on its line
                lines_gen(5, 2, 2, ["R", "P"], blank=False, inline=True, max_code=2, base=1, mb=True),
                dict(lines_gen(4, 2, 2, ["R", "P"], blank=False, tail=True, max_code=2, edge="<"), cfg=html),   # the delimiter's first character once more in front of a tag
                dict(lines_gen(4, 2, 2, ["R", "T"], blank=False, tail=True, max_code=2, edge="/"), cfg={"ds": "/* <", "de": "> */"}),
                lines_gen(6, 2, 3, ["R", "US", "UST", "T"], blank=False, crossing=True, max_code=1),       # an unclosed element inside a wrapper whose name ends with its name
                dict(lines_gen(4, 2, 2, ["T", "R"], blank=False, max_code=2), cfg={"off": "+09:00", "now": [10956, 72000]}),   # expired only because of the offset
                dict(lines_gen(4, 2, 2, ["T", "P"], blank=False, max_code=2), cfg={"off": "-0800", "now": [10957, 14400]}),    # not yet expired only because of the offset
                lines_gen(8, 1, 1, ["R"], blank=True, max_code=2, empty_default=True),                        # two and more blank lines on both sides of a block
                dict(lines_gen(4, 2, 2, ["R", "T"], blank=False, tail=True, max_code=2, pad=" -"), cfg={"ds": "<!--", "de": "-->"}),   # the end delimiter's first character once more in front of it
                dict(lines_gen(4, 2, 2, ["R", "T"], blank=False, tail=True, max_code=2, pad=" -", open_pad=False), cfg={"ds": "<!--", "de": "-->"}),   # ... in closing tags only
                lines_gen(4, 2, 2, ["R", "P"], ws=(2,), lead="\ufeff"),                                          # a byte order mark in front of the document
                lines_gen(4, 2, 2, ["R", "P"], blank=True, lead="m1;\r\n"),                                     # mixed line ends: one CRLF line in front of an LF document
                lines_gen(4, 2, 2, ["R", "P"], blank=False, code_b="\r"),                                         # a lone carriage return inside a line of code
                lines_gen(5 if not lite else 4, 2, 2, ["R", "P"], ws=(2,), eol="\r\n"),                       # CRLF documents: CR is an ordinary character, line numbers count LF
                lines_gen(6, 1, 1, ["R"], unit=" " * 35, base=1, ws=(35, 70), blank=False, max_code=2),       # very wide indentation and whitespace-only lines (look-behind windows)
                lines_gen(5, 1, 1, ["R"], blank=True, wide=True, max_code=2),                           # lines of wide blanks (U+3000, NBSP) only
                lines_gen(4, 2, 2, ["R", "UX", "UP", "XR", "XT"], blank=False, max_code=1),                # near-miss tag names, the other evaluator's attribute
                lines_gen(4, 2, 2, ["TB", "R", "T"], blank=False, max_code=1),                             # a `to` that cannot be read: never ready
                dict(lines_gen(4, 2, 2, ["RB", "PB", "R"], blank=False, max_code=1), cfg={"targets": ["a", "a "]}),   # names / targets with blank edges
                lines_gen(4, 2, 2, ["R", "P", "T"], blank=False, eq_pad=(" ", " ")),                       # name = 'a'
                lines_gen(4, 1, 1, ["R", "T", "S"], blank=False, eq_pad=("  ", ""), quote='"'),
                lines_gen(4, 1, 1, ["R", "P", "T"], blank=False, extra_attr=" skipper"),
                lines_gen(4, 1, 1, ["R", "T"], blank=False, extra_attr=" Skip"),
                lines_gen(4, 1, 1, ["R", "P"], blank=False, extra_attr=" names='b' to2='x'"),
                lines_gen(6, 2, 3, ["R", "F", "P"], blank=False, crossing=True, max_code=1),            # crossing regions: <a> <b> </a> </b>
                dict(lines_gen(4, 2, 2, ["NV", "NN", "R"], blank=False), cfg={"targets": ["a", ""]}),   # valueless names, "" among the targets
                lines_gen(4, 2, 2, ["R", "P"], blank=False, pad=" "),                                   # padded tags: <tag a='b' >
                lines_gen(14, 3, 5, ["R", "P", "S", "SP", "SF", "U", "T", "F"], ws=(2,), base=ctx.seed % 2, simulate=(15 if lite else 40, 14)),
                kitchen_sink(ctx, ["R", "P", "S", "U", "T", "F"], 12, 8 if lite else 20),
                dict(lines_gen(5 - d // 2, 2, 2, ["R", "P", "T"], ws=(2,)), cfg=html)]
        ctx.job("block", gens=gens, invariants=invariants, ops=ops, cfg={"ds": "<", "de": ">"}, nontrivial=has_ready)
        return
    sets = [
        ("block-mixed", [lines_gen(8, 2, 3, ["R", "P", "S", "U"], ws=(2,))]),
        ("block-one", [lines_gen(10, 1, 1, ["R"], base=0, ws=(1,)), lines_gen(9, 1, 1, ["R"], base=1, ws=(1,))]),
        ("block-two", [lines_gen(11, 1, 2, ["R"], base=0, ws=()), lines_gen(10, 2, 2, ["R", "P"], base=1, ws=())]),
        ("block-tab-mb", [lines_gen(7, 2, 2, ["R", "P"], unit="\t", base=1, ws=(1,)), lines_gen(8, 2, 2, ["R", "P"], base=1, ws=(2,), mb=True),
                          lines_gen(7, 2, 2, ["T", "F"], unit="    ", base=0, suffix="é")]),
        ("block-sim", [lines_gen(14, 3, 5, ["R", "P", "S", "SP", "SF", "U", "T", "F"], ws=(2,), base=ctx.seed % 2, simulate=(1500, 14)),
                       kitchen_sink(ctx, ["R", "P", "S", "U", "T", "F"], 14, 600)]),
        ("block-html", [dict(lines_gen(7, 2, 2, ["R", "P", "T"], ws=(2,)), cfg=html)]),
        ("block-eq-blanks", [lines_gen(6, 2, 2, ["R", "P", "T", "Ru"], blank=False, eq_pad=(" ", " ")), lines_gen(6, 2, 2, ["R", "T"], eq_pad=("  ", ""), quote='"')]),
        ("block-unreadable-to-blank-names", [lines_gen(6, 2, 2, ["TB", "R", "T", "TBu"], blank=False, max_code=2),
                                             dict(lines_gen(6, 2, 2, ["RB", "PB", "R", "RBu"], blank=False, max_code=2), cfg={"targets": ["a", "a "]})]),
        ("block-near-misses", [lines_gen(6, 2, 2, ["R", "UX", "UP", "XR", "XT"], blank=False, max_code=2),
                               lines_gen(6, 2, 2, ["R", "P", "T"], blank=False, extra_attr=" skipper"), lines_gen(6, 2, 2, ["R", "T"], extra_attr=" Skip"),
                               lines_gen(6, 2, 2, ["Ru", "R"], blank=False, extra_attr=" xunwrap-block unwrap-blocks")]),
        ("block-crossing", [lines_gen(8, 3, 3, ["R", "P", "T"], blank=False, crossing=True, max_code=3),
                            lines_gen(7, 2, 3, ["R", "US", "UST", "T"], blank=False, crossing=True, max_code=2)]),
        ("block-offsets", [dict(lines_gen(6, 2, 2, ["T", "R", "F"], blank=False, max_code=3), cfg={"off": "+09:00", "now": [10956, 72000]}),
                           dict(lines_gen(6, 2, 2, ["T", "P"], blank=False, max_code=3), cfg={"off": "-0800", "now": [10957, 14400]})]),
        ("block-many-blanks", [lines_gen(11, 1, 1, ["R"], blank=True, max_code=2, empty_default=True), lines_gen(9, 1, 1, ["R"], ws=(1,), blank=True, max_code=2, empty_default=True)]),
        ("block-lead", [lines_gen(6, 2, 2, ["R", "P"], ws=(2,), lead="\ufeff"), lines_gen(6, 2, 2, ["R", "P"], blank=True, lead="m1;\r\n"),
                        lines_gen(6, 2, 2, ["R", "P"], blank=False, code_b="\r"), lines_gen(6, 2, 2, ["R", "T"], blank=True, lead="\r")]),
        ("block-crlf", [lines_gen(7, 2, 2, ["R", "P"], ws=(2,), eol="\r\n"), lines_gen(6, 2, 2, ["R", "T"], base=1, blank=True, tail=True, max_code=2, eol="\r\n")]),
        ("block-wide-indent", [lines_gen(7, 1, 1, ["R"], unit=" " * 35, base=1, ws=(35, 70), blank=True, max_code=2),
                               lines_gen(5, 2, 2, ["R", "P"], unit=" " * 130, base=1, ws=(130, 260), blank=True, max_code=2),
                               lines_gen(5, 1, 1, ["R"], unit="\t" * 70, base=1, ws=(70,), blank=True, max_code=2)]),
        ("block-mb-neighbours", [lines_gen(6, 2, 2, ["R", "P"], blank=True, tail=True, max_code=3, base=1, mb=True),
                                 lines_gen(7, 2, 2, ["R", "P"], blank=False, inline=True, max_code=3, base=1, mb=True)]),
        ("block-delimiter-char-edges", [dict(lines_gen(6, 2, 2, ["R", "P"], blank=False, tail=True, max_code=3, edge="<"), cfg=html),
                                        dict(lines_gen(6, 2, 2, ["R", "T"], blank=False, inline=True, max_code=3, edge="/"), cfg={"ds": "/* <", "de": "> */"}),
                                        dict(lines_gen(6, 2, 2, ["R", "T"], blank=False, tail=True, max_code=3, edge="-", pad=" -"), cfg={"ds": "<!--", "de": "-->"})]),
        ("block-valueless-names", [dict(lines_gen(6, 2, 2, ["NV", "NN", "R", "NVu"], blank=False), cfg={"targets": ["a", ""]})]),
        ("block-wide-blanks", [lines_gen(7, 1, 2, ["R"], blank=True, wide=True, max_code=3), lines_gen(6, 2, 2, ["R", "P"], base=1, ws=(1,), wide=True)]),
        ("block-padded-tags", [lines_gen(6, 2, 2, ["R", "P", "T"], blank=False, pad=" "), lines_gen(6, 2, 2, ["R", "P"], pad="  ")]),
        ("block-tail-elements", [lines_gen(7, 2, 2, ["R", "P"], blank=True, tail=True, max_code=3), lines_gen(6, 2, 2, ["R", "P"], blank=True, tail=True, max_code=3, base=1, edge="あ"),
                                 lines_gen(7, 2, 2, ["R", "P"], blank=False, inline=True, max_code=3, base=1, edge="é")]),
        ("block-valued-flags", [lines_gen(7, 2, 2, ["R", "S", "P"], blank=False, flag_val="='1'"), lines_gen(6, 2, 2, ["R", "S"], flag_val='=""'),
                                lines_gen(7, 2, 2, ["R", "S", "T"], blank=False, quote='"', flags_first=True)]),
        ("block-two-line-tags", [lines_gen(7, 2, 2, ["R", "P", "T"], base=1, blank=True, tag_sep="\n     "),
                                 dict(lines_gen(6, 2, 2, ["R", "P"], blank=True, tag_sep="\n * "), cfg={"ds": "/* <", "de": "> */"})]),
        ("block-mixed-indent", [lines_gen(7, 2, 2, ["R", "P"], unit=" \t", base=1, ws=(2,)), lines_gen(6, 1, 1, ["R"], unit="\t ", base=2, blank=True),
                                lines_gen(6, 2, 2, ["R", "P"], unit="  \t", base=1, blank=True)]),
    ]
    for (name, gens) in sets:
        ctx.job(name, gens=gens, invariants=invariants, ops=ops, cfg={"ds": "<", "de": ">"}, nontrivial=has_ready)


def unwrap_jobs(ctx, invariants, ops, lite=False):
    q = ctx.quick
    d = 2 if (q and lite) else 0
    cfg = {"ds": "<", "de": ">"}
    if q:
        gens = [lines_gen(7 - d // 2, 1, 1, ["Ru"], free=(1,), blank=True),
                lines_gen(6, 1, 1, ["Ru"], free=(0, 2), blank=False),
                lines_gen(6 - d // 2, 2, 2, ["Ru", "R", "P"], free=(1,), blank=False),
                lines_gen(10 - d, 2, 2, ["Ru"], blank=False),
                lines_gen(11 if not lite else 9, 2, 3, ["Ru", "R"], blank=False, max_code=5, empty_default=True),   # removed sibling before a nested pair
                lines_gen(8 - d // 2, 2, 2, ["Ru", "Pu"], base=1, blank=False),
                lines_gen(6, 1, 1, ["Tu"], unit="\t", free=(0, 2), blank=False, suffix="あ"),
                lines_gen(7 - d // 2, 1, 1, ["Ru"], blank=False, pairs=True, max_code=4),          # touching removed inline regions
                lines_gen(7 if not lite else 5, 2, 2, ["Ru", "R"], blank=False, inline=True, max_code=3),   # tags sharing lines with code
                dict(lines_gen(6, 2, 2, ["Ru", "R"], blank=False, free=(1,)), cfg={"ds": "<!-- <", "de": "> -->"}),
                dict(lines_gen(6, 1, 1, ["Ru"], blank=True, free=(1,), suffix="あ"), cfg={"ds": "《", "de": "》"}),
                lines_gen(6, 2, 2, ["Ru", "P"], blank=False, base=1, tag_sep="\n     "),                # opening tags spanning two lines
                lines_gen(6, 1, 1, ["Ru"], free=(0, 2), blank=False, base=1, code_b=" = 1"),       # interior blanks at the tag column
                lines_gen(6, 1, 1, ["Ru"], unit="\t", free=(0, 2), blank=False, base=1, code_a=" "),
                lines_gen(6, 2, 2, ["Ru", "Su", "Pu"], free=(1,), blank=False),                    # skip together with unwrap-block
                lines_gen(6, 1, 1, ["Ru"], free=(0, 2), blank=False, flag_val='="true"'),          # valued flag: unwrap-block="true"
                lines_gen(6, 2, 2, ["Ru", "Su"], free=(1,), blank=False, flag_val="='1'"),
                lines_gen(6, 2, 2, ["Ru", "Tu", "P"], free=(1,), blank=False, quote='"', flags_first=True),   # flags first, double quotes
                lines_gen(6, 2, 2, ["Ru", "R"], blank=False, tail=True, max_code=2),
                lines_gen(6, 2, 2, ["Ru", "P"], blank=False, pad=" "),
                lines_gen(6, 2, 2, ["Ru", "R"], blank=False, inline=True, max_code=2, base=1, edge="あ"),   # a multi-byte character glued to inline tags
                lines_gen(6, 2, 2, ["Ru", "R"], blank=False, tail=True, max_code=2, base=1, edge="é"),
                lines_gen(6, 2, 2, ["Ru", "R"], blank=False, ws=(1, 3), base=1, max_code=2),          # whitespace-only lines shorter / longer than the tag's indentation around a removed child
                lines_gen(6, 2, 2, ["Ru", "R"], blank=False, tail=True, max_code=2, base=1, mb=True),
                lines_gen(6, 1, 1, ["Ru"], free=(0, 1), blank=False, lead="\ufeff"),                            # a byte order mark in front of the document
                lines_gen(6, 2, 2, ["Ru", "R"], blank=False, max_code=3, lead="m1;\r\n"),                        # mixed line ends
                dict(lines_gen(6, 1, 1, ["Tu"], free=(1,), blank=False), cfg={"off": "+09:00", "now": [10956, 72000]}),
                dict(lines_gen(6, 2, 2, ["Ru", "R"], blank=False, inline=True, max_code=2, edge="<"), cfg={"ds": "<!-- <", "de": "> -->"}),
                lines_gen(6, 1, 1, ["Ru", "Tu"], free=(1,), blank=False, eq_pad=("", " ")),
                dict(lines_gen(6, 1, 1, ["RBu", "TBu"], free=(1,), blank=False), cfg={"targets": ["a "]}),
                lines_gen(6, 1, 1, ["Ru"], free=(0, 2), blank=False, wide=True),                          # inner lines beginning with a wide blank
                lines_gen(7, 2, 2, ["Ru"], blank=False, wide=True, max_code=4),
                lines_gen(6, 1, 1, ["Ru", "R"], free=(1,), blank=False, extra_attr=" xunwrap-block"),
                lines_gen(6, 1, 1, ["R", "UXu"], free=(1,), blank=False, extra_attr=" unwrap-blocks UNWRAP-BLOCK"),
                dict(lines_gen(10, 2, 2, ["Ru"], blank=False, free=(0,), free_code=False, max_code=6), constraint="FeasibleU"),   # nested blocks, tags in the same column
                lines_gen(16, 3, 4, ["Ru", "R", "P", "Pu", "S", "Su"], free=(0, 1, 2), ws=(2,), simulate=(15 if lite else 30, 16)),
                kitchen_sink(ctx, ["Ru", "R", "P", "Pu", "T", "Tu", "Su"], 14, 8 if lite else 20)]
        ctx.job("unwrap", gens=gens, invariants=invariants, ops=ops, cfg=cfg, nontrivial=has_ready)
        return
    sets = [
        ("unwrap-one", [lines_gen(8, 1, 1, ["Ru"], free=(0, 1, 2), blank=True), lines_gen(10, 1, 1, ["Ru"], free=(1,), blank=True)]),
        ("unwrap-mixed", [lines_gen(9, 2, 2, ["Ru", "R", "P"], free=(1,), blank=False)]),
        ("unwrap-nested", [lines_gen(13, 2, 2, ["Ru"], blank=False), lines_gen(11, 2, 2, ["Ru", "Pu"], base=1, blank=False),
                           lines_gen(13, 2, 3, ["Ru", "R"], blank=False, max_code=6), lines_gen(11, 3, 3, ["Ru", "R", "P"], blank=False, base=1, max_code=5),
                           lines_gen(14, 3, 3, ["Ru"], blank=False)]),
        ("unwrap-tab", [lines_gen(8, 1, 1, ["Tu"], unit="\t", free=(0, 1, 2), blank=False, suffix="あ")]),
        ("unwrap-other-delims", [dict(lines_gen(8, 2, 2, ["Ru", "R", "P"], blank=False, free=(1,)), cfg={"ds": "<!-- <", "de": "> -->"}),
                                 dict(lines_gen(7, 1, 1, ["Ru"], blank=True, free=(0, 1, 2), suffix="あ"), cfg={"ds": "《", "de": "》"}),
                                 dict(lines_gen(7, 2, 2, ["Ru", "R"], blank=False), cfg={"ds": "%%", "de": "%%"}),
                                 lines_gen(8, 2, 2, ["Ru", "P", "R"], blank=False, base=1, tag_sep="\n     ")]),
        ("unwrap-pairs", [lines_gen(9, 2, 2, ["Ru", "P"], blank=False, pairs=True, max_code=5)]),
        ("unwrap-inline-tags", [lines_gen(8, 2, 3, ["Ru", "R", "P"], blank=False, inline=True, max_code=4)]),
        ("unwrap-lead", [lines_gen(8, 1, 1, ["Ru"], free=(0, 1, 2), blank=False, lead="\ufeff"), lines_gen(8, 2, 2, ["Ru", "R"], blank=False, max_code=4, lead="m1;\r\n"),
                         dict(lines_gen(8, 2, 2, ["Tu", "T"], free=(1,), blank=False), cfg={"off": "+09:00", "now": [10956, 72000]})]),
        ("unwrap-ws-lines", [lines_gen(9, 2, 2, ["Ru", "R"], blank=True, ws=(1, 3), base=1, max_code=4), lines_gen(8, 2, 2, ["Ru", "R", "P"], blank=False, ws=(2, 5), base=2, max_code=3)]),
        ("unwrap-mb-neighbours", [lines_gen(8, 2, 2, ["Ru", "R"], blank=False, tail=True, max_code=3, base=1, mb=True),
                                  lines_gen(8, 2, 2, ["Ru", "R"], blank=False, inline=True, max_code=3, base=1, mb=True),
                                  dict(lines_gen(8, 2, 2, ["Ru", "R"], blank=False, inline=True, max_code=3, edge="<"), cfg={"ds": "<!-- <", "de": "> -->"})]),
        ("unwrap-edge-chars", [lines_gen(8, 2, 2, ["Ru", "R"], blank=False, inline=True, max_code=4, base=1, edge="あ"),
                               lines_gen(7, 2, 2, ["Ru", "R", "P"], blank=False, tail=True, max_code=3, base=1, edge="é"),
                               lines_gen(7, 2, 2, ["Ru", "R"], blank=False, inline=True, tail=True, max_code=2, unit="\t", base=1, edge="😀")]),
        ("unwrap-interior-blanks", [lines_gen(8, 1, 1, ["Ru"], free=(0, 1, 2), blank=False, base=1, code_b=" = 1"),
                                    lines_gen(8, 1, 1, ["Ru"], unit="\t", free=(0, 2), blank=False, base=1, code_a=" "),
                                    lines_gen(9, 2, 2, ["Ru", "R"], unit="    ", free=(0,), blank=False, base=1, code_b=" = 1 ")]),
        ("unwrap-tail-elements", [lines_gen(8, 2, 2, ["Ru", "R", "P"], blank=False, tail=True, max_code=3),
                                  lines_gen(7, 1, 3, ["Ru", "R"], blank=False, tail=True, free=(2,), free_tags=False, max_code=3),
                                  lines_gen(7, 2, 2, ["Ru", "P"], blank=False, pad=" ")]),
        ("unwrap-wide-blanks", [lines_gen(8, 1, 1, ["Ru"], free=(0, 1, 2), blank=False, wide=True), lines_gen(9, 2, 2, ["Ru"], blank=False, wide=True, max_code=5)]),
        ("unwrap-flags", [lines_gen(8, 2, 2, ["Ru", "Su", "Pu"], free=(1,), blank=False),
                          lines_gen(8, 1, 1, ["Ru"], free=(0, 1, 2), blank=False, flag_val='="true"'),
                          lines_gen(8, 2, 2, ["Ru", "Su", "R"], free=(1,), blank=False, flag_val="='1'"),
                          lines_gen(8, 2, 2, ["Ru", "Tu", "P"], free=(1,), blank=False, quote='"', flags_first=True)]),
        ("unwrap-sim", [lines_gen(16, 3, 4, ["Ru", "R", "P", "Pu", "S", "Su"], free=(0, 1, 2), ws=(2,), simulate=(1500, 16)),
                        kitchen_sink(ctx, ["Ru", "R", "P", "Pu", "T", "Tu", "Su"], 16, 600)]),
    ]
    for (name, gens) in sets:
        ctx.job(name, gens=gens, invariants=invariants, ops=ops, cfg=cfg, nontrivial=has_ready)


def inline_jobs(ctx, invariants, ops, lite=False):
    q = ctx.quick
    gens = []
    for (ds, de) in [("<", ">"), ("/* <", "> */")]:
        atoms = [ds + "rm name='a'" + de, ds + "rm name='b'" + de, ds + "/rm" + de, "x", "y;", "\n", "  ", "é"]
        n = 6 if not q else (4 if (lite or ds != "<") else 5)
        gens.append({"base": "GenAtoms", "consts": {"Atoms": [Chars(a) for a in atoms], "N": n}, "cfg": {"ds": ds, "de": de}})
    ctx.job("inline", gens=gens if not (q and lite) else gens[:1], invariants=invariants, ops=ops, cfg={"ds": "<", "de": ">"},
            nontrivial=has_ready)


def impl_model_checking(ctx):
    """the assembled transcription of the pipeline satisfies C01 - C04, C11 - C14 on GenLines documents (no code)"""
    q = ctx.quick
    from engine import DEFAULT_CFG
    from vlib import base_consts
    for (nm, g) in [("block", lines_gen(5 if q else 6, 2, 2, ["R", "P"], ws=(2,))),
                    ("unwrap", lines_gen(6 if q else 7, 2, 2, ["Ru", "R", "P"], blank=False)),
                    ("unwrap-one", lines_gen(7 if q else 8, 1, 1, ["Ru"], free=(1,), blank=True)),
                    ("nested", lines_gen(9 if q else 11, 2, 2, ["Ru"], blank=False))]:
        consts = dict(base_consts(dict(DEFAULT_CFG), [], "mc"))
        consts.update(g["consts"])
        ctx.mc("impl-" + nm, "MC_Impl", consts, ["ImplSatisfiesR"], constraint="Feasible")


def conformance_job(ctx, invariants):
    """impl -> Layer I: every stage event of clean / list / list_all (incl. the formatter's seam, block and final
    ranges) is compared with the value the transcription computes; mismatches are reported as DRIFT, never as a verdict"""
    q = ctx.quick
    gens = [lines_gen(4 if q else 6, 2, 2, ["R", "P", "Ru"], ws=(2,)),
            lines_gen(6 if q else 8, 2, 2, ["Ru", "R"], blank=False, base=1),
            lines_gen(4 if q else 6, 2, 2, ["T", "F", "Pu"], unit="\t", base=1, suffix="é"),
            lines_gen(4 if q else 5, 2, 2, ["R", "P", "Ru"], ws=(2,), eol="\r\n"),          # CRLF: CR is an ordinary character
            lines_gen(4 if q else 5, 2, 2, ["R", "P", "Ru"], blank=True, tail=True, max_code=2)]   # elements behind code on one line
    ctx.job("conformance", gens=gens, invariants=invariants,
            ops=[{"op": "tokenize"}, {"op": "tree"}, {"op": "clean"}, {"op": "list_json"}, {"op": "list_all_json"},
                 {"op": "list"}, {"op": "list_all"}],
            cfg={"ds": "<", "de": ">"}, nontrivial=has_ready, fmt_hooks=True, conform=True)
    evaluator_conformance_job(ctx, invariants)


def evaluator_conformance_job(ctx, invariants):
    """growth beyond the properties: repeated `to` / `name` attributes (the first one decides in the code) and equal tag
    names for both evaluators (the removal-marker evaluator is registered last and wins); Layer R is lenient there,
    Layer I (Impl!ImplTimeDec / ImplMarkerDec / DecOf) predicts the code and Conf_All compares"""
    import json
    import os
    from engine import DEFAULT_CFG
    from vlib import WORK, cfg_json, cps
    past, future = "2001-01-01 00:00:00", "2999-01-01 00:00:00"
    attrs = ["to='%s' to='%s'" % (past, future), "to='%s' to='%s'" % (future, past), "to to='%s'" % past, "to='%s' to" % past,
             "name='a' name='b'", "name='b' name='a'", "name name='a'", "name='a' name",
             "name='a' to='%s'" % future, "to='%s' name='b'" % past, "to='%s' name='a' skip" % past, "name='b' to='%s' unwrap-block" % past]
    path = os.path.join(WORK, "evalconf_%s_p%d.ndjson" % (ctx.prop, os.getpid()))
    ops = [{"op": "clean"}, {"op": "list_all_json"}]
    n = 0
    with open(path, "w") as f:
        for (tl, rm) in [("tl", "rm"), ("x", "x")]:
            for a in attrs:
                for nm in sorted({tl, rm}):
                    for inner in ["", "  <%s %s>\n  in\n  </%s>\n" % (nm, attrs[(attrs.index(a) + 5) % len(attrs)], nm)]:
                        src = "k\n<%s %s>\n  body\n%s  more\n</%s>\nz\n" % (nm, a, inner, nm)
                        c = dict(DEFAULT_CFG, ds="<", de=">", tl=tl, rm=rm, targets=["a"], now=[19000, 0])
                        f.write(json.dumps({"id": "evalconf:%d" % n, "gen": "evaluator-conformance", "src": cps(src),
                                            "cfg": cfg_json(c), "ops": ops}) + "\n")
                        n += 1
    ctx.job("conformance-evaluators", gens=[{"file": path}], invariants=invariants, ops=ops, nontrivial=None, conform=True)


REPO_DOCS = [
    ("chiritori/src/integration-test-fixtures/test001.input.js", {"ds": "/* <", "de": "> */", "tl": "time-limited", "rm": "marker", "targets": ["feature1"]}),
    ("chiritori/src/integration-test-fixtures/test002.input.js", {"ds": "/* <", "de": "> */", "tl": "time-limited", "rm": "marker", "targets": ["feature1"]}),
    ("samples/sample-code.js", {"ds": "// --", "de": "-- //", "tl": "time-limited-code", "rm": "removal-marker", "targets": ["awesome-feature"]}),
    ("samples/sample-code.html", {"ds": "<!-- <", "de": "> -->", "tl": "time-limited", "rm": "removal-marker", "targets": []}),
]


def repo_docs_job(ctx, invariants, ops):
    """the repository's own fixtures and samples, read from the working tree, under their documented configuration:
    the existing tests compare them with golden files; here every property predicate is evaluated on them"""
    import json
    import os
    from engine import DEFAULT_CFG
    from vlib import WORK, REPO, cfg_json, cps
    path = os.path.join(WORK, "repo_docs_%s_p%d.ndjson" % (ctx.prop, os.getpid()))
    n = 0
    with open(path, "w") as f:
        for (rel, cfg) in REPO_DOCS:
            p = os.path.join(REPO, rel)
            if not os.path.exists(p):
                continue
            src = open(p, encoding="utf-8").read()
            for now in ([18000, 0], [30000, 0]):
                c = dict(DEFAULT_CFG, **cfg)
                c["now"] = now
                f.write(json.dumps({"id": "repo:%s@%d" % (os.path.basename(rel), now[0]), "gen": "repo-docs", "src": cps(src),
                                    "cfg": cfg_json(c), "ops": ops}) + "\n")
                n += 1
    if n:
        ctx.job("repo-docs", gens=[{"file": path}], invariants=invariants, ops=ops, nontrivial=has_ready)


def check_C02(ctx):
    impl_model_checking(ctx)
    conformance_job(ctx, ["Inv_C02"])
    block_jobs(ctx, ["Inv_C02"], [{"op": "clean"}])
    unwrap_jobs(ctx, ["Inv_C02"], [{"op": "clean"}])
    inline_jobs(ctx, ["Inv_C02"], [{"op": "clean"}])
    junk_jobs(ctx, ["Inv_C02"], [{"op": "clean"}], has_ready)
    pump_job(ctx, ["Inv_C02"], [{"op": "clean"}], ["nest", "nest-p", "lines", "ready", "pending", "indent", "mb", "blank"], [100] if ctx.quick else [100, 300])
    repo_docs_job(ctx, ["Inv_C02"], [{"op": "clean"}])


PIPELINE_INVS = ["C01", "C02", "C03", "C04", "C07", "C08", "C10", "C11", "C12", "C13", "C14", "C15", "C16", "C17"]


def pipeline_model_checking(ctx):
    """the state machine of Chiritori.tla driven by Layer I, checked against the predicates of Props.tla (no code)"""
    from engine import DEFAULT_CFG
    from vlib import base_consts
    q = ctx.quick
    for (nm, g) in [("block", lines_gen(5 if q else 6, 2, 2, ["R", "P"], ws=(2,))),
                    ("unwrap", lines_gen(6 if q else 7, 2, 2, ["Ru", "R", "P"], blank=False)),
                    ("tabs-inline", lines_gen(5 if q else 6, 2, 2, ["Ru", "P"], unit=" \t", base=1, blank=False, inline=True, max_code=3)),
                    # elements wholly on one line (behind / in front of code, next to another element's tag), valued flags, padded tags
                    ("one-line-elements", lines_gen(4 if q else 5, 2, 2, ["Ru", "S", "P"], blank=False, tail=True, flag_val="='1'", pad=" ", max_code=2))]:
        consts = dict(base_consts(dict(DEFAULT_CFG), [], "mc"))
        consts.update(g["consts"])
        consts["DMax"] = consts.pop("D")
        ctx.mc("pipeline-" + nm, "MC_Pipeline", consts, PIPELINE_INVS, constraint="PConstraint", init="PInit", nxt="PNext")


def check_C03(ctx):
    pipeline_model_checking(ctx)
    block_jobs(ctx, ["Inv_C03"], [{"op": "clean"}], lite=True)
    unwrap_jobs(ctx, ["Inv_C03"], [{"op": "clean"}])
    inline_jobs(ctx, ["Inv_C03"], [{"op": "clean"}])
    junk_jobs(ctx, ["Inv_C03"], [{"op": "clean"}], has_ready)
    pump_job(ctx, ["Inv_C03"], [{"op": "clean"}], ["nest", "nest-p", "lines", "ready", "pending", "indent", "mb", "blank"], [100] if ctx.quick else [100, 300])
    repo_docs_job(ctx, ["Inv_C03"], [{"op": "clean"}])


def truncated_closer_job(ctx, invariants):
    """files that stop (or go on) in the middle of a closing tag's end delimiter: the element stays unclosed"""
    q = ctx.quick
    gens = []
    for (ds, de) in [("<!-- <", "> -->"), ("/* <", "> */"), ("%%", "%%")] + ([] if q else [("-->", "<!--"), ("aab", "bba")]):
        closer = ds + "/rm" + de
        atoms = [ds + "rm name='a'" + de, "x", "\n", closer] + [closer[:len(closer) - k] for k in range(1, len(de) + 1)] + [de[-1], " "]
        gens.append({"base": "GenAtoms", "consts": {"Atoms": [Chars(a) for a in atoms], "N": 4 if q else 5}, "cfg": {"ds": ds, "de": de}})
    ctx.job("truncated-closers", gens=gens, invariants=invariants, ops=[{"op": "clean"}], cfg={"ds": "<", "de": ">"}, nontrivial=has_ready)


def time_probe_job(ctx, invariants):
    """a one-element time-limited probe document cleaned along a clock grid around its expiry instant, under offsets of
    both signs and both spellings: "unexpired" depends on the configured offset as much as on the clock"""
    from vlib import TlaSet
    q = ctx.quick
    consts = {"ToValues": [Chars(t) for t in (CANON_TOS[:3] if q else CANON_TOS[:6])], "BadTos": [Chars(t) for t in BAD_TOS],
              "OffMinutes": TlaSet([0, 540, -480, 345, 840, -720] if q else [0, 60, 540, -60, -300, -480, 345, -570, 840, -720]),
              "BadOffsets": [Chars(o) for o in BAD_OFFS], "Deltas": DELTAS, "Millis": [0, 250, 999], "Probe": True}
    ctx.job("time-probe", gens=[{"base": "GenTime", "consts": consts}], invariants=invariants, ops=[],
            cfg={"ds": "<", "de": ">", "tl": "tl", "rm": "rm"}, nontrivial=None)


def check_C04(ctx):
    truncated_closer_job(ctx, ["Inv_C04"])
    time_probe_job(ctx, ["Inv_C04"])
    # single tags from the grammar generator (odd separators, word characters that look like blanks) under targets / clock
    # that make the well-formed ones ready: whatever is not a well-formed ready element must leave the text untouched
    ctx.job("tag-k1", gens=[{"base": "GenTag", "extra_inv": "RoundTrip", "consts": tag_consts(1, True)}],
            invariants=["Inv_C04"], ops=[{"op": "clean"}], cfg={"ds": "<", "de": ">"}, nontrivial=None)
    block_jobs(ctx, ["Inv_C04"], [{"op": "clean"}])
    unwrap_jobs(ctx, ["Inv_C04"], [{"op": "clean"}], lite=True)
    inline_jobs(ctx, ["Inv_C04"], [{"op": "clean"}])
    chars_jobs(ctx, ["Inv_C04"], [{"op": "clean"}], None, pairs_quick=2)
    junk_jobs(ctx, ["Inv_C04"], [{"op": "clean"}], None)
    pump_job(ctx, ["Inv_C04"], [{"op": "clean"}], ["open", "stray", "nest-p", "pending", "lines", "mb"], [100, 257] if ctx.quick else [100, 257, 300])
    # the command on large sources without a ready element (the marker of the core is not among the targets)
    cli_big_job(ctx, invariants=("Inv_C04",), targets=("zz",), ks=[1800, 2800], nunits=2)    # the reference view of the whole source is evaluated: smaller than in C20
    repo_docs_job(ctx, ["Inv_C04"], [{"op": "clean"}])


def check_C11(ctx):
    unwrap_jobs(ctx, ["Inv_C11"], [{"op": "clean"}])
    pump_job(ctx, ["Inv_C11"], [{"op": "clean"}], ["lines", "after", "indent", "nest", "blank"], [100] if ctx.quick else [100, 300], cores=(1,))
    repo_docs_job(ctx, ["Inv_C11"], [{"op": "clean"}])


def check_C12(ctx):
    unwrap_jobs(ctx, ["Inv_C12"], [{"op": "clean"}])
    late_removal_job(ctx, ["Inv_C12"])
    pump_job(ctx, ["Inv_C12"], [{"op": "clean"}], ["lines", "after", "indent", "nest", "blank"], [100] if ctx.quick else [100, 300], cores=(1,))
    repo_docs_job(ctx, ["Inv_C12"], [{"op": "clean"}])


def check_C13(ctx):
    block_jobs(ctx, ["Inv_C13"], [{"op": "clean"}])
    pump_job(ctx, ["Inv_C13"], [{"op": "clean"}], ["nest", "nest-p", "lines", "ready", "indent", "mb", "blank"], [100] if ctx.quick else [100, 300], cores=(0,))
    repo_docs_job(ctx, ["Inv_C13"], [{"op": "clean"}])


def late_removal_job(ctx, invariants):
    """an unwrap-block with a child on its tag line or on a wrapper line, kept lines indented deeper than the block's tag
    behind it, and a later removal: a wrong pair index makes the dedent run on past the block"""
    g = lines_gen(8, 1, 3, ["Ru", "R"], blank=False, tail=True, tail_kinds=["R"], free=(2,), free_tags=False, max_code=4)
    g["constraint"] = "FeasibleU"            # the document begins with the unwrap-block
    ctx.job("unwrap-late-removal", gens=[g],
            invariants=invariants, ops=[{"op": "clean"}], cfg={"ds": "<", "de": ">"}, nontrivial=has_ready)


def check_C14(ctx):
    block_jobs(ctx, ["Inv_C14"], [{"op": "clean"}], lite=True)
    unwrap_jobs(ctx, ["Inv_C14"], [{"op": "clean"}], lite=False)
    late_removal_job(ctx, ["Inv_C14"])
    pump_job(ctx, ["Inv_C14"], [{"op": "clean"}], ["nest", "lines", "ready", "indent", "mb", "blank"], [30] if ctx.quick else [30, 60])
    inline_jobs(ctx, ["Inv_C14"], [{"op": "clean"}])
    ctx.quick or repo_docs_job(ctx, ["Inv_C14"], [{"op": "clean"}])


def ref_model_checking(ctx):
    """sanity theorems about the reference semantics itself (partition, nesting, extents, regions, clock)"""
    from engine import DEFAULT_CFG
    from vlib import base_consts
    q = ctx.quick
    for (nm, g, now) in [("block", lines_gen(6 if q else 7, 2, 3, ["R", "P", "T", "F"], ws=(2,)), [11000, 0]),
                         ("unwrap", lines_gen(8 if q else 9, 2, 2, ["Ru", "Pu", "R", "Tu"], blank=False), [10900, 0])]:
        consts = dict(base_consts(dict(DEFAULT_CFG, now=now), [], "mc"))
        consts.update(g["consts"])
        ctx.mc("ref-" + nm, "MC_Ref", consts, ["TokensSane", "PairsSane", "ExtentsSane", "RegionsSane", "ClockSane"],
               constraint="Feasible")


def check_C15(ctx):
    ops = [{"op": "clean"}, {"op": "list_json"}, {"op": "list"}, {"op": "list_json"}]
    ref_model_checking(ctx)
    block_jobs(ctx, ["Inv_C15"], ops, lite=True)
    unwrap_jobs(ctx, ["Inv_C15"], ops, lite=True)
    inline_jobs(ctx, ["Inv_C15"], ops, lite=True)
    pump_job(ctx, ["Inv_C15"], ops, ["lines", "ready", "pending", "nest-p", "mb", "after"], [9, 10, 99, 100] if ctx.quick else [9, 10, 99, 100, 300])
    # listing is a function of source and configuration alone: the same families in a process environment that asks for no colours
    ctx.job("environment", gens=[lines_gen(4 if ctx.quick else 5, 2, 2, ["R", "P", "Ru"], blank=False), lines_gen(4, 1, 1, ["T"], unit="\t", base=1, blank=True)],
            invariants=["Inv_C15"], ops=ops, cfg={"ds": "<", "de": ">"}, nontrivial=has_ready,
            env={"NO_COLOR": "1", "CLICOLOR": "0", "CLICOLOR_FORCE": "0", "TERM": "dumb", "COLORTERM": "", "LANG": "ja_JP.UTF-8", "COLUMNS": "20", "LINES": "5"})
    repo_docs_job(ctx, ["Inv_C15"], [{"op": "clean"}, {"op": "list_json"}, {"op": "list"}, {"op": "list_json"}])


def tab_column_jobs(ctx, invariants, ops):
    """marker columns: tabs and spaces mixed in front of a region, inline regions behind a tab"""
    q = ctx.quick
    gens = [lines_gen(4 if q else 6, 2, 2, ["R", "P", "Ru"], unit=" \t", base=1, blank=False),
            lines_gen(4 if q else 5, 1, 1, ["R"], unit="\t ", base=2, blank=False)]
    atoms = ["<rm name='a'>", "<rm name='b'>", "</rm>", "x;", "\t", " ", "\n"]
    gens.append({"base": "GenAtoms", "consts": {"Atoms": [Chars(a) for a in atoms], "N": 5 if q else 6}})
    gens.append(lines_gen(4 if q else 5, 2, 2, ["R", "P", "Ru"], blank=False, preamble=7))      # line numbers cross 9 -> 10
    gens.append(lines_gen(4, 1, 1, ["R", "Pu"], blank=False, preamble=97))                       # ... and 99 -> 100
    gens.append(lines_gen(4 if q else 5, 2, 2, ["R", "P"], blank=False, code_b="\r"))                    # a lone carriage return is no line end
    gens.append(lines_gen(4 if q else 5, 1, 1, ["R", "Ru"], blank=False, lead="\r"))
    ctx.job("tab-columns", gens=gens, invariants=invariants, ops=ops, cfg={"ds": "<", "de": ">"}, nontrivial=has_ready)


def list_model_checking(ctx):
    """the transcribed list / list_all (markers + rendering) satisfy C15 - C17 on GenLines documents (no code)"""
    from engine import DEFAULT_CFG
    from vlib import base_consts
    q = ctx.quick
    for (nm, g) in [("block", lines_gen(5 if q else 6, 2, 2, ["R", "P"], ws=(2,))),
                    ("unwrap", lines_gen(7 if q else 8, 2, 2, ["Ru", "P", "R"], blank=False)),
                    ("tabs", lines_gen(5 if q else 6, 2, 2, ["R", "Pu"], unit=" \t", base=1, blank=True))]:
        consts = dict(base_consts(dict(DEFAULT_CFG), [], "mc"))
        consts.update(g["consts"])
        ctx.mc("list-" + nm, "MC_List", consts, ["ListSatisfiesR"], constraint="Feasible")


def check_C16(ctx):
    ops = [{"op": "list_json"}, {"op": "list"}, {"op": "list_all_json"}, {"op": "list_all"}]
    list_model_checking(ctx)
    tab_column_jobs(ctx, ["Inv_C16"], [{"op": "list_json"}, {"op": "list_all_json"}])
    block_jobs(ctx, ["Inv_C16"], ops, lite=True)
    unwrap_jobs(ctx, ["Inv_C16"], ops, lite=True)
    inline_jobs(ctx, ["Inv_C16"], ops, lite=True)
    pump_job(ctx, ["Inv_C16"], ops, ["lines", "ready", "pending", "nest-p", "mb", "indent"], [9, 10, 99, 100] if ctx.quick else [9, 10, 99, 100, 300])
    repo_docs_job(ctx, ["Inv_C16"], [{"op": "list_json"}, {"op": "list"}, {"op": "list_all_json"}, {"op": "list_all"}])


def check_C17(ctx):
    ops = [{"op": "list_json"}, {"op": "list_all_json"}]
    block_jobs(ctx, ["Inv_C17"], ops, lite=True)
    unwrap_jobs(ctx, ["Inv_C17"], ops, lite=True)
    ctx.job("pending-many", gens=[lines_gen(8 if ctx.quick else 11, 2, 4, ["R", "P"], blank=False),
                                  lines_gen(7 if ctx.quick else 9, 2, 3, ["Ru", "P", "Pu"], blank=False),
                                  lines_gen(7 if ctx.quick else 9, 3, 3, ["S", "P", "R"], blank=False),
                                  lines_gen(7 if ctx.quick else 9, 2, 3, ["SP", "P", "R"], blank=False),          # skip on pending parents / children
                                  lines_gen(6 if ctx.quick else 8, 2, 2, ["SF", "SPu", "Pu", "F"], blank=False, flag_val="='1'")],
            invariants=["Inv_C17"], ops=ops, cfg={"ds": "<", "de": ">"}, nontrivial=has_ready)
    pump_job(ctx, ["Inv_C17"], ops, ["lines", "ready", "pending", "nest-p", "mb"], [9, 10, 99, 100] if ctx.quick else [9, 10, 99, 100, 300])
    repo_docs_job(ctx, ["Inv_C17"], [{"op": "list_json"}, {"op": "list_all_json"}])



# ---------------------------------------------------------------------------------------------------------------
SPELLINGS = [("<", ">"), ("<!-- <", "> -->"), ("/* <", "> */"), ("// --", "-- //"), ("# <", "> #"), ("%%", "%%"),
             ("《", "》"), ("[[", "]]"), ("(*", "*)"), ("{{", "}}"), ("<?", "?>"), ("$(", ")"), ("\\begin{", "}"),
             ("{{ ", " }}"), ("<!--", "-->")]
CLI_SPELLINGS = [("\\(", "\\)"), ("\\begin{", "}"), ("\\\\", "//"), ("$(", ")"), ("-->", "<!--"), ("--", "-->"), ("\\n", "\\t"),
                 ("%s", "%d"), ("{{ ", " }}"), ("*", "?"), ("~/", "$HOME"), ("@", "\\")]
NAME_POOL = [("tl", "rm"), ("time-limited", "removal-marker"), ("期限", "マーカー"), ("TimeLimited", "RemovalMarker"), ("FIXME", "rm_v2.old")]

CANON_TOS = ["2024-02-29 23:59:59", "2024-03-01 00:00:00", "2023-12-31 23:59:59", "2024-01-01 00:00:00",
             "2023-02-28 12:00:00", "2000-02-29 00:00:00", "2100-02-28 23:59:59", "1999-12-31 23:59:59",
             "2038-01-19 03:14:07", "2024-06-30 00:00:01", "2024-10-27 02:30:00", "1970-01-01 00:00:00"]
BAD_TOS = ["2024/01/01 00:00:00", "2024-01-01T00:00:00", "2024-01-01", "2024-01-01 00:00", "2024-13-01 00:00:00",
           "2024-02-30 00:00:00", "2023-02-29 00:00:00", "2024-01-01 24:00:00", "2024-01-01 00:60:00",
           "2024-01-01 00:00:61", "2024-01-01 00:00:00 +09:00", "2024-01-01 00:00:00Z", "2024-01-01 00:00:00 UTC",
           "", "tomorrow", "2024-00-10 00:00:00", "2024-01-00 00:00:00", "2024.01.01 00.00.00", "00:00:00 2024-01-01x"]
BAD_OFFS = ["", "Z", "UTC", "+9", "+09", "0900", "+25:00", "+09:60", "+09:00:00", "JST", "+24:00", "09:00"]
DELTAS = [-86400, -3600, -60, -1, 0, 1, 60, 3600, 86400]


def ready_toggle(b):
    rs = [e.get("ready") for e in b.get("events", []) if e.get("ev") in ("EvalTime", "EvalMarker")]
    return (True in rs) and (False in rs)


def check_C05(ctx):
    from vlib import TlaSet
    q = ctx.quick
    # sanity of the oracle itself: civil-date arithmetic, offsets, class disjointness (no code involved)
    ctx.mc("eval-dates", "MC_Eval",
           {"Years": TlaSet([1970, 1999, 2000, 2023, 2024, 2100] if q else [1969, 1970, 1999, 2000, 2001, 2023, 2024, 2025, 2038, 2100, 2400]),
            "OffMins": TlaSet([-720, -210, 0, 345, 540, 840] if q else list(range(-720, 841, 45))),
            "Samples": [Chars(x) for x in CANON_TOS + BAD_TOS + BAD_OFFS + ["+09:00", "-0330", "+14:00"]]},
           ["Successor", "Anchors", "Offsets", "Classes"])
    # every day of every year a canonical `to` can name (0001 .. 9999): the day number of the next day is the next number
    ctx.mc("eval-dates-all-years", "MC_Eval", {"Years": TlaSet(list(range(1, 10000))), "OffMins": TlaSet([0]), "Samples": []},
           ["Successor", "Anchors"], timeout=3600)
    step = 60 if q else 15
    offs = [m for m in range(-720, 841, step)]
    if q:
        offs = sorted(set(offs + [330, 345, -210, 765]))      # half / quarter-hour zones
    tos = CANON_TOS[:6] if q else CANON_TOS
    deltas = DELTAS if q else sorted(set(DELTAS + list(range(-90, 91, 7)) + [-2, 2, 59, -59, 61, -61]))
    base = {"ToValues": [Chars(t) for t in tos], "BadTos": [Chars(t) for t in BAD_TOS], "OffMinutes": TlaSet(offs),
            "BadOffsets": [Chars(o) for o in BAD_OFFS], "Deltas": deltas, "Millis": [0, 999] if q else [0, 1, 500, 999]}
    cfg = {"ds": "<", "de": ">", "tl": "tl", "rm": "rm"}
    ctx.job("time-eval", gens=[{"base": "GenTime", "consts": dict(base, Probe=False)}], invariants=["Inv_C05"], ops=[],
            cfg=cfg, nontrivial=ready_toggle)
    small = dict(base, ToValues=[Chars(t) for t in tos[:3]], OffMinutes=TlaSet([0, 540, -480, 345, 840, -720]), Probe=True)
    ctx.job("time-probe", gens=[{"base": "GenTime", "consts": small}], invariants=["Inv_C05"], ops=[], cfg=cfg,
            nontrivial=has_ready)
    # the command line: explicit current time given in different zones, offset option, TZ of the process
    docs = ["<!-- <time-limited to='2024-03-01 00:00:00'> -->\nx\n<!-- </time-limited> -->\ny\n"]
    for (off, now) in [("+09:00", [19782, 54000]), ("+09:00", [19782, 53999]), ("-08:00", [19783, 28800]),
                       ("-08:00", [19783, 28799]), ("+05:45", [19782, 65700]), ("+0545", [19782, 65699])]:
        ctx.job("time-cli[%s]" % off,
                gens=[{"base": "GenCli", "consts": {"Docs": [Chars(d) for d in docs], "TargetPool": [Chars("a")],
                                                    "Zones": ["UTC", "Asia/Tokyo", "America/Los_Angeles", "unset"] if not q else ["Asia/Tokyo", "unset"],
                                                    "Langs": [""], "OmitAll": False, "Part": "clean_stdout", "Currents": TlaSet(["given"]), "ArgForms": ["eq"], "Odds": [""]}}],
                invariants=["Inv_C05", "Inv_C20"], ops=[], cli=True,
                cfg={"ds": "<!-- <", "de": "> -->", "tl": "time-limited", "rm": "removal-marker", "off": off, "now": now},
                nontrivial=None)


TARGET_POOL = ["", "a", "A", "ab", "a ", "feature1", "feature", "vec![]", "+00:00"]


def check_C06(ctx):
    q = ctx.quick
    for (tl, rm) in ([("tl", "rm")] if q else [("tl", "rm"), ("time-limited", "marker")]):
        ctx.job("targets[%s]" % rm, gens=[{"base": "GenTargets", "consts": {"Pool": [Chars(t) for t in TARGET_POOL],
                                                                          "MaxSize": 2 if q else 3}}],
                invariants=["Inv_C06"], ops=[], cfg={"ds": "<", "de": ">", "tl": tl, "rm": rm, "targets": []},
                nontrivial=ready_toggle)
    # the command line with and without target options (defaults must contribute no targets)
    doc = "".join("<!-- <removal-marker name='%s'> -->\nx%d\n<!-- </removal-marker> -->\n" % (t, i)
                  for i, t in enumerate(["vec![]", "a", "", "feature1", "+00:00", "removal-marker", "b ", "b", " c", "c", "x,y", "x", "y"]))
    ctx.job("targets-cli", gens=[{"base": "GenCli", "consts": {"Docs": [Chars(doc)], "TargetPool": [Chars("a"), Chars("b "), Chars(" c"), Chars("x,y"), Chars("feature1")],
                                                               "Zones": ["UTC"], "Langs": [""], "OmitAll": True, "Part": "stdout", "Currents": TlaSet(["given"]), "ArgForms": ["eq"], "Odds": [""]}}],
            invariants=["Inv_C06"], ops=[], cli=True,
            cfg={"ds": "<!-- <", "de": "> -->", "tl": "time-limited", "rm": "removal-marker", "off": "+00:00", "targets": []},
            nontrivial=None)


def tag_consts(k, full):
    vals = ["", "a", "a b", "x=y", "it's", '"q"', "skip", "unwrap-block", "to='2000-01-01 00:00:00'", "<", "l1\nl2", "C:\\dir\\", "\\", "年末まで", "é", " a", "a ", " ", "\n"]
    if not full:
        vals = ["", "a", "a b", "x=y", "it's", '"q"', "skip", "l1\nl2", "<", "a\\", "年末まで", " a", "a \n"]
    # a tab, a carriage return, a wide blank are ordinary word characters of the grammar (separators: space, line break)
    return {"TagNames": [Chars("rm"), Chars("tl"), Chars("rm\tc")] if full else [Chars("rm"), Chars("rm\u3000")],
            "AttrNames": [Chars(x) for x in (["name", "to", "skip", "c", "unwrap-block", "name\t", "\rskip"] if full else ["name", "skip", "c", "\tname"])],
            "Values": [Chars(v) for v in vals],
            "Seps": [Chars(x) for x in [" ", "  ", "\n", "\n  ", " \n * "]],
            "Eqs": [[0, 0], [1, 0], [0, 1], [1, 1]] if full else [[0, 0], [1, 1]],
            "Pads": [[0, 0], [1, 0], [0, 1], [1, 1]] if full else [[0, 0], [1, 1]],
            "Trails": [Chars(x) for x in (["", " ", "\n"] if full else ["", " "])], "K": k}


def parsed_attrs(b):
    for e in b.get("events", []):
        if e.get("ev") == "ParseTags" and any(t.get("attrs") for t in e.get("tags", [])):
            return True
    return False


def check_C09(ctx):
    q = ctx.quick
    ops = [{"op": "parse_tags"}, {"op": "clean"}]
    ctx.mc("attr[<|>]", "MC_Attr", {"DS": Chars("<"), "DE": Chars(">"), "Alphabet": Chars(" \n='\"a/"), "N": 6 if q else 8},
           ["ImplRefines"])
    ctx.job("tag-k1", gens=[{"base": "GenTag", "extra_inv": "RoundTrip", "consts": tag_consts(1, True)}],
            invariants=["Inv_C09"], ops=ops, cfg={"ds": "<", "de": ">"}, nontrivial=parsed_attrs)
    if q:
        ctx.job("tag-sim", gens=[{"base": "GenTag", "extra_inv": "RoundTrip", "consts": tag_consts(3, True), "simulate": (60, 6)}],
                invariants=["Inv_C09"], ops=ops, cfg={"ds": "<", "de": ">"}, nontrivial=parsed_attrs)
    else:
        ctx.job("tag-k2", gens=[{"base": "GenTag", "extra_inv": "RoundTrip", "consts": tag_consts(2, False)}],
                invariants=["Inv_C09"], ops=ops, cfg={"ds": "<", "de": ">"}, nontrivial=parsed_attrs)
        ctx.job("tag-sim", gens=[{"base": "GenTag", "extra_inv": "RoundTrip", "consts": tag_consts(4, True), "simulate": (2500, 7)}],
                invariants=["Inv_C09"], ops=ops, cfg={"ds": "<", "de": ">"}, nontrivial=parsed_attrs)
    ctx.job("tag-html", gens=[{"base": "GenTag", "extra_inv": "RoundTrip", "consts": tag_consts(1, False)}],
            invariants=["Inv_C09"], ops=ops, cfg={"ds": "<!-- <", "de": "> -->"}, nontrivial=parsed_attrs)


def has_pair(b):
    for e in b.get("events", []):
        if e.get("ev") == "Tree" and any(r[0] == 1 for r in e.get("tree", [])):
            return True
    return False


def check_C10(ctx):
    q = ctx.quick
    ctx.mc("tree", "MC_Tree", {"NamesPool": [Chars(x) for x in ["a", "ab", "/a", "/ab", "/x"]], "N": 6 if q else 8}, ["ImplRefines"])
    for (ds, de) in [("<", ">")] + ([] if q else [("<!-- <", "> -->")]):
        atoms = [ds + "a" + de, ds + "b" + de, ds + "/a" + de, ds + "/b" + de, ds + "/x" + de, "t"]
        ctx.job("tokens[%s|%s]" % (ds, de),
                gens=[{"base": "GenAtoms", "consts": {"Atoms": [Chars(a) for a in atoms], "N": 6 if q else 8}}],
                invariants=["Inv_C10"], ops=[{"op": "tree"}], cfg={"ds": ds, "de": de}, nontrivial=has_pair)
    # names one of which is a suffix / prefix of the other
    for (n1, n2) in [("b", "ab"), ("a", "ab")]:
        atoms = ["<%s>" % n1, "<%s>" % n2, "</%s>" % n1, "</%s>" % n2, "t"]
        ctx.job("tokens-names[%s,%s]" % (n1, n2),
                gens=[{"base": "GenAtoms", "consts": {"Atoms": [Chars(a) for a in atoms], "N": 5 if q else 7}}],
                invariants=["Inv_C10"], ops=[{"op": "tree"}], cfg={"ds": "<", "de": ">"}, nontrivial=has_pair)
    atoms = ["<a x='1'>", "<a>", "</a>", "<b skip>", "</b>", "</a >", "< a>", "<>", "t", "\n", "<a\nk>", "</a\nk>"]
    ctx.job("tokens-attrs", gens=[{"base": "GenAtoms", "consts": {"Atoms": [Chars(a) for a in atoms], "N": 5 if q else 6}}],
            invariants=["Inv_C10"], ops=[{"op": "tree"}], cfg={"ds": "<", "de": ">"}, nontrivial=has_pair)
    block_like = [lines_gen(7 if q else 9, 3, 3, ["R", "P", "Ru"], blank=False)]
    ctx.job("tree-in-clean", gens=block_like, invariants=["Inv_C10"], ops=[{"op": "clean"}], cfg={"ds": "<", "de": ">"},
            nontrivial=has_ready)
    # scale: hundreds of simultaneously open / stray / nested tags, hundreds of regions in front of a well-formed element
    pump_job(ctx, ["Inv_C10"], [{"op": "tree"}], ["open", "stray", "nest", "nest-p", "ready", "pending"],
             [256, 257] if q else [255, 256, 257, 300, 1000], cores=(0,))
    repo_docs_job(ctx, ["Inv_C10"], [{"op": "tree"}, {"op": "clean"}])


def check_C18(ctx):
    from vlib import TlaRaw
    q = ctx.quick
    n = len(SPELLINGS)
    bases = [ctx.seed % n, (ctx.seed + 5) % n] if q else list(range(n))
    for bi in bases:
        ds, de = SPELLINGS[bi]
        tl, rm = NAME_POOL[bi % len(NAME_POOL)]
        others = []
        for j, (ds2, de2) in enumerate(SPELLINGS):
            if j == bi:
                continue
            for (tl2, rm2) in ([NAME_POOL[(j + 1) % len(NAME_POOL)]] if q else NAME_POOL):
                others.append({"ds": Chars(ds2), "de": Chars(de2), "tl": Chars(tl2), "rm": Chars(rm2)})
        g = lines_gen(5 if q else 6, 2, 2, ["R", "P", "T", "Ru"], blank=False, pad=["", " ", " -"][(ctx.seed + bi) % 3])
        g["base"] = "GenRespell"
        g["emit"] = "EmitPairs"
        g["consts"]["Spellings"] = others
        g["consts"]["CliPhase"] = ""
        ctx.job("respell[%s|%s]" % (ds, de), gens=[g], invariants=["Inv_C18"], ops=[],
                cfg={"ds": ds, "de": de, "tl": tl, "rm": rm}, nontrivial=has_ready)
    # tags of a few hundred characters (a long free-text attribute): lengths around 255 / 256 bytes under some spellings only
    for n in ([224 + (ctx.seed % 5)] if q else [96, 100, 150, 200, 224, 225, 226, 227, 228]):     # the shortest spelling stays at or below 256 / 128 bytes
        ds, de = ("<", ">")
        others = [{"ds": Chars(ds2), "de": Chars(de2), "tl": Chars(tl2), "rm": Chars(rm2)}
                  for j, (ds2, de2) in enumerate(SPELLINGS) if (ds2, de2) != (ds, de) for (tl2, rm2) in [NAME_POOL[j % len(NAME_POOL)]]]
        g = lines_gen(4, 1, 1, ["R", "T", "Ru"], blank=False, max_code=2, extra_attr=" note='%s'" % ("n" * n))
        g["base"] = "GenRespell"
        g["emit"] = "EmitPairs"
        g["consts"]["Spellings"] = others
        g["consts"]["CliPhase"] = ""
        ctx.job("respell-long-tags[%d]" % n, gens=[g], invariants=["Inv_C18"], ops=[], cfg={"ds": ds, "de": de, "tl": "tl", "rm": "rm"}, nontrivial=has_ready)
    # the command line is the tool: the respelled configuration given by options, for spellings a shell / an argument
    # parser / an escape convention could treat specially (backslashes, leading dashes, '$(', '=', blanks at the edges)
    for (form, (ds, de)) in [("eq", ("[[", "]]")), ("sep", ("<", ">"))][: 1 if q and ctx.seed % 2 else 2]:
        others = [{"ds": Chars(ds2), "de": Chars(de2), "tl": Chars(tl2), "rm": Chars(rm2)}
                  for ((ds2, de2), (tl2, rm2)) in zip(CLI_SPELLINGS, NAME_POOL * 3)]
        g = lines_gen(4 if q else 5, 2, 2, ["R", "P", "T", "Ru"], blank=False)
        g["base"] = "GenRespell"
        g["emit"] = "EmitPairs"
        g["consts"]["Spellings"] = others
        g["consts"]["CliPhase"] = form
        ctx.job("respell-cli[%s]" % form, gens=[g], invariants=["Inv_C18"], ops=[], cli=True,
                cfg={"ds": ds, "de": de, "tl": "tl", "rm": "rm"}, nontrivial=has_ready)


def chains(quick=False):
    # clocks: tau_k lies after T_k expired and before T_{k+1}; day numbers of 2001-06-01, 2002-06-01, 2003-06-01
    t = [[11474, 0], [11839, 0], [12204, 0]]
    tg = [[], ["m1"], ["m1", "m2"], ["m1", "m2", "m3"]]
    out = []
    for seq in ([(2,), (0, 1), (1, 2), (0, 1, 2), (0, 0, 2)] if quick else [(0,), (2,), (0, 1), (0, 2), (1, 2), (0, 1, 2), (0, 0, 2), (1, 1)]):
        out.append([{"now": t[k], "targets": [Chars(x) for x in tg[k + 1]]} for k in seq])
    return out


def hist_model_checking(ctx):
    """the managed file under periodic cleaning as a state machine over Layer I: every interleaving of clock /
    target steps and runs (no code involved)"""
    from engine import DEFAULT_CFG
    from vlib import base_consts
    q = ctx.quick
    for (nm, g) in [("time", lines_gen(5 if q else 6, 2, 2, ["T1", "T2", "T3"], blank=False)),
                    ("unwrap-later", lines_gen(6 if q else 7, 2, 2, ["T2u", "T1", "M1"], blank=True)),
                    ("unwrap-first", lines_gen(6 if q else 7, 2, 2, ["T1u", "T2", "M2u"], blank=False)),
                    ("tail-elements", lines_gen(5 if q else 6, 2, 2, ["T1", "T2u"], blank=False, tail=True, max_code=2)),
                    ("tail-blank", lines_gen(4 if q else 6, 2, 2, ["T1", "T2u"], blank=True, tail=True, max_code=1))]:
        consts = dict(base_consts(dict(DEFAULT_CFG, targets=[]), [], "mc"))
        consts.update(g["consts"])
        consts["Clocks"] = [[11474, 0], [11839, 0], [12204, 0]]
        consts["TargetSteps"] = [[Chars("m1")], [Chars("m1"), Chars("m2")], [Chars("m1"), Chars("m2"), Chars("m3")]]
        ctx.mc("hist-" + nm, "MC_Hist", consts, ["Idempotent", "Composes", "Monotone", "NoCrash"], constraint="Feasible",
               init="HInit", nxt="HNext")


def known_finding_examples_job(ctx, prop, invariants):
    """the example history of every open finding of this property is replayed on every run, so that the
    KNOWN-FINDING line appears exactly as long as the defect persists"""
    import json
    import os
    from engine import DEFAULT_CFG
    from vlib import WORK, cfg_json, cps, load_known_findings
    path = os.path.join(WORK, "kf_%s_p%d.ndjson" % (prop, os.getpid()))
    n = 0
    with open(path, "w") as f:
        for kf in load_known_findings():
            ex = kf.get("signature", {}).get("example")
            if kf.get("status") != "open" or kf.get("property") != prop or not ex or "chain" not in ex:
                continue
            cfg = dict(DEFAULT_CFG, ds=ex["ds"], de=ex["de"], tl=ex["tl"], rm=ex["rm"], off=ex.get("off", "+00:00"), targets=[])
            chain = ex["chain"]
            ops = [{"op": "config", "now": chain[-1]["now"], "targets": [cps(t) for t in chain[-1]["targets"]]}, {"op": "clean"}]
            for st in chain:
                ops += [{"op": "config", "now": st["now"], "targets": [cps(t) for t in st["targets"]]}, {"op": "commit"}, {"op": "clean"}]
            f.write(json.dumps({"id": "known-finding:" + kf["id"], "gen": "known-finding", "src": cps(ex["src"]),
                                "cfg": cfg_json(cfg), "ops": ops}) + "\n")
            n += 1
    if n:
        ctx.job("known-finding-examples", gens=[{"file": path}], invariants=invariants, nontrivial=None)


def check_C19(ctx):
    q = ctx.quick
    hist_model_checking(ctx)
    known_finding_examples_job(ctx, "C19", ["Inv_C19"])
    cfg = {"ds": "<", "de": ">", "targets": []}
    sets = [
        ("hist-time", lines_gen(6 if q else 8, 2, 2 if q else 3, ["T1", "T2", "T3"], blank=False)),
        ("hist-unwrap", lines_gen(7 if q else 9, 2, 2, ["T1u", "T2", "T3u"] if q else ["T1u", "T2u", "T1", "T2", "T3"], blank=False)),
        ("hist-marker", lines_gen(6 if q else 8, 2, 2, ["M1", "M2u", "M3"], blank=True)),
        ("hist-touching", lines_gen(5 if q else 7, 2, 2, ["M2", "M2u"], blank=False, pairs=True, pair_kind="M1", max_code=3)),
        # elements wholly on one line behind code, inside and around unwrap-blocks that expire later
        ("hist-tail", lines_gen(6 if q else 8, 2, 2, ["T1", "T2u"], blank=False, tail=True, max_code=2 if q else 3)),
        ("hist-tail-blank", lines_gen(5 if q else 7, 2, 2, ["T1", "T2u"], blank=True, tail=True, max_code=1 if q else 2)),
        # tags sharing lines with code: a child closing on the closing wrapper line, opening on the opening one
        ("hist-inline", lines_gen(6 if q else 8, 2, 2, ["T1", "T2u"], blank=False, inline=True, max_code=2 if q else 3)),
    ]
    hist_pumped_job(ctx)
    for (name, g) in sets:
        g["base"] = "GenHist"
        g["emit"] = "EmitHist"
        g["consts"]["Chains"] = chains(q)
        ctx.job(name, gens=[g], invariants=["Inv_C19"], ops=[], cfg=cfg, nontrivial=has_ready)
    # the same histories under spellings whose start delimiter begins with the end delimiter's last character: a tag written
    # directly behind another one ("> *//* <") must still be a tag at every step of the history
    for (ds, de) in [("/* <", "> */"), ("/*", "*/")]:
        gs = []
        for g in (lines_gen(5 if q else 6, 2, 2, ["M2", "M2u"], blank=False, pairs=True, pair_kind="M1", max_code=2),
                  lines_gen(5 if q else 6, 2, 2, ["T1", "T2u"], blank=False, tail=True, max_code=1 if q else 2)):
            g["base"] = "GenHist"
            g["emit"] = "EmitHist"
            g["consts"]["Chains"] = chains(q)
            gs.append(dict(g, cfg={"ds": ds, "de": de}))
        ctx.job("hist-adjacent[%s|%s]" % (ds, de), gens=gs, invariants=["Inv_C19"], ops=[], cfg=cfg, nontrivial=has_ready)


CLI_DOCS_DEFAULT = [
    "plain text, no tag at all\n  second line\n",
    # expiry instants a few hours around the current instant of the C20 jobs (day 19000 = 2022-01-08T00:00:00Z): a current
    # time re-read in the process's zone, or an offset dropped, changes the decision
    "k\n<!-- <time-limited to='2022-01-08 03:00:00'> -->\nsoon\n<!-- </time-limited> -->\n"
    "<!-- <time-limited to='2022-01-07 20:00:00'> -->\njust\n<!-- </time-limited> -->\nz\n",
    # a byte order mark in front, CRLF line ends, no final line break: nothing of this is the command's business
    "\ufeffbom\r\n<!-- <time-limited to='2001-01-01 00:00:00'> -->\r\nold\r\n<!-- </time-limited> -->\r\n<!-- <removal-marker name='a'> -->ra<!-- </removal-marker> -->\r\nlast",
    "a\n<!-- <time-limited to='2001-01-01 00:00:00'> -->\nold\n<!-- </time-limited> -->\n"
    "<!-- <removal-marker name='a'> -->\n  ra\n<!-- </removal-marker> -->\n"
    "<!-- <removal-marker name='feature1' unwrap-block> -->\nif (f) {\n  keep();\n}\n<!-- </removal-marker> -->\n"
    "<!-- <removal-marker name='vec![]'> -->\nrv\n<!-- </removal-marker> -->\n"
    "<!-- <removal-marker name=''> -->\nempty name\n<!-- </removal-marker> -->\n"
    "<!-- <removal-marker name='x,y'> -->\ncomma\n<!-- </removal-marker> -->\n<!-- <removal-marker name='y'> -->\nhalf\n<!-- </removal-marker> -->\nz\n",
    "日本語\n<!-- <time-limited to='2999-01-01 00:00:00'> -->\n\tnew é\n<!-- </time-limited> -->\nend",
    "",
]
CLI_DOCS_CUSTOM = [
    "no tags here\n",
    "x\n/* <tl to='2001-01-01 00:00:00'> */\nold\n/* </tl> */\n/* <rm name='a'> */ra/* </rm> */\n/* <rm name='zz'> */\nrz\n/* </rm> */\n/* <rm name=''> */\nre\n/* </rm> */\ny\n",
]


CLI_DOCS_BLANK = [
    "x\n <TL to='2001-01-01 00:00:00'> \nold\n </TL> \n <Rm name='a'> ra </Rm> \n <Rm name=' b '> \nrb\n </Rm> \n<Rm name='a'>not a tag: no blank in front\ny\n",
]


def cli_docs_job(ctx):
    """documents of the line generator under the default spelling: library clean / list vs. the binary fed through
    stdin / a file, targets via flags"""
    q = ctx.quick
    def cli(inp, outp, mode, js):
        return {"op": "cli", "input": inp, "output": outp, "mode": mode, "json": js, "targets_via": "flags", "tz": "unset", "lang": "",
                "now_zone_min": 540, "file_targets": [], "flag_targets": [Chars("a")], "omit": ["ds", "de", "tl", "rm", "off"]}
    ops = [{"op": "clean"}, cli("stdin", "stdout", "clean", False), {"op": "list_all_json"}, cli("file", "file", "list_all", True)]
    ctx.job("cli-docs", gens=[lines_gen(4 if q else 6, 2, 2, ["R", "P", "T", "Ru"], ws=(2,)),
                              lines_gen(5 if q else 6, 1, 1, ["Tu", "F"], unit="\t", base=1, blank=False, suffix="é")],
            invariants=["Inv_C20"], ops=ops, cli=True,
            cfg={"ds": "<!-- <", "de": "> -->", "tl": "time-limited", "rm": "removal-marker", "off": "+00:00",
                 "now": [19000, 0], "targets": ["a"]}, nontrivial=has_ready)


def check_C20(ctx):
    q = ctx.quick
    cli_docs_job(ctx)
    zones = ["UTC", "Asia/Tokyo", "America/Los_Angeles", "unset"]
    if q:
        zones = [zones[ctx.seed % 4], zones[(ctx.seed + 1) % 4]]
    langs = [""] if q else ["", "C", "en_US.UTF-8", "ja_JP.UTF-8"]
    ctx.job("cli-defaults", gens=[{"base": "GenCli", "consts": {"Docs": [Chars(d) for d in (CLI_DOCS_DEFAULT[:5] if q else CLI_DOCS_DEFAULT)],
                                                                "TargetPool": [Chars(""), Chars("a"), Chars("feature1"), Chars("x,y"), Chars("x y")],
                                                                "Zones": zones, "Langs": langs, "OmitAll": True, "Part": "all", "Currents": TlaSet(["given"]), "ArgForms": [["eq", "sep"][ctx.seed % 2]] if q else ["eq", "sep"], "Odds": [""]}}],
            invariants=["Inv_C20"], ops=[], cli=True,
            cfg={"ds": "<!-- <", "de": "> -->", "tl": "time-limited", "rm": "removal-marker", "off": "+00:00",
                 "now": [19000, 0], "targets": []}, nontrivial=None)
    ctx.job("cli-custom", gens=[{"base": "GenCli", "consts": {"Docs": [Chars(d) for d in CLI_DOCS_CUSTOM],
                                                              "TargetPool": [Chars("a"), Chars("b")],
                                                              "Zones": zones[:1] if q else zones, "Langs": langs[:1], "OmitAll": False, "Part": "all", "Currents": TlaSet(["given"]), "ArgForms": ["eq", "sep"], "Odds": [""]}}],
            invariants=["Inv_C20"], ops=[], cli=True,
            cfg={"ds": "/* <", "de": "> */", "tl": "tl", "rm": "rm", "off": "+09:00", "now": [19000, 3600], "targets": []},
            nontrivial=None)
    # option values with leading / trailing blanks, upper-case tag names, an offset without colon
    ctx.job("cli-blank-delims", gens=[{"base": "GenCli", "consts": {"Docs": [Chars(d) for d in CLI_DOCS_BLANK],
                                                                   "TargetPool": [Chars("a"), Chars(" b ")],
                                                                   "Zones": zones[:1], "Langs": langs[:1], "OmitAll": False, "Part": "stdout", "Currents": TlaSet(["given"]), "ArgForms": ["eq", "sep"], "Odds": [""]}}],
            invariants=["Inv_C20"], ops=[], cli=True,
            cfg={"ds": " <", "de": "> ", "tl": "TL", "rm": "Rm", "off": "-0330", "now": [19000, 3600], "targets": []},
            nontrivial=None)
    # delimiters and tag names that an argument parser, an escape convention or a shell could treat specially
    tmpl = CLI_DOCS_CUSTOM[1]
    sp = CLI_SPELLINGS if not q else [CLI_SPELLINGS[0], CLI_SPELLINGS[(ctx.seed % (len(CLI_SPELLINGS) - 1)) + 1], CLI_SPELLINGS[((ctx.seed + 5) % (len(CLI_SPELLINGS) - 1)) + 1]]
    for (ds, de) in sp:
        doc = tmpl.replace("/* <", ds).replace("> */", de)
        ctx.job("cli-spelling[%s|%s]" % (ds, de), gens=[{"base": "GenCli", "consts": {"Docs": [Chars(doc)], "TargetPool": [Chars("a"), Chars("zz")],
                                                                   "Zones": zones[:1], "Langs": langs[:1], "OmitAll": False, "Part": "stdout",
                                                                   "Currents": TlaSet(["given"]), "ArgForms": ["eq", "sep"], "Odds": [""]}}],
                invariants=["Inv_C20"], ops=[], cli=True,
                cfg={"ds": ds, "de": de, "tl": "tl", "rm": "rm", "off": "+09:00", "now": [19000, 3600], "targets": []}, nontrivial=None)
    # growth beyond C20: option combinations and failures outside every property (both list flags, --list-json alone, an input
    # that cannot be opened, an output that cannot be created): Conform!ConfCliOdd predicts them, DRIFT only
    ctx.job("cli-odd", gens=[{"base": "GenCli", "consts": {"Docs": [Chars(CLI_DOCS_CUSTOM[1])], "TargetPool": [Chars("a")],
                                                           "Zones": zones[:1], "Langs": langs[:1], "OmitAll": False, "Part": "all", "Currents": TlaSet(["given"]),
                                                           "ArgForms": ["eq"], "Odds": ["both_lists", "json_clean", "missing_input", "bad_outdir"]}}],
            invariants=["Inv_C20"], ops=[], cli=True, conform=True,
            cfg={"ds": "/* <", "de": "> */", "tl": "tl", "rm": "rm", "off": "+09:00", "now": [19000, 3600], "targets": []}, nontrivial=None)
    cli_big_job(ctx)
    # growth beyond C20: no (usable) --time-limited-current, the process reads the system clock; the harness reads it before
    # and after the run, Conform!ConfWallClock compares with the library result (reported as DRIFT, never as a verdict)
    ctx.job("cli-wallclock", gens=[{"base": "GenCli", "consts": {"Docs": [Chars(d) for d in (CLI_DOCS_DEFAULT[1:2] + CLI_DOCS_DEFAULT[3:5])],
                                                                 "TargetPool": [Chars("a"), Chars("feature1")],
                                                                 "Zones": zones[:2], "Langs": langs[:1], "OmitAll": True, "Part": "stdout",
                                                                 "Currents": TlaSet(["omit", "garbage"]), "ArgForms": ["eq"], "Odds": [""]}}],
            invariants=["Inv_C20"], ops=[], cli=True, conform=True,
            cfg={"ds": "<!-- <", "de": "> -->", "tl": "time-limited", "rm": "removal-marker", "off": "+00:00",
                 "now": [19000, 0], "targets": []}, nontrivial=None)


CHECKS = {"C01": check_C01, "C02": check_C02, "C03": check_C03, "C04": check_C04, "C07": check_C07, "C08": check_C08,
          "C11": check_C11, "C12": check_C12, "C13": check_C13, "C14": check_C14, "C15": check_C15, "C16": check_C16,
          "C17": check_C17, "C05": check_C05, "C06": check_C06, "C09": check_C09, "C10": check_C10, "C18": check_C18,
          "C19": check_C19, "C20": check_C20}
NEEDS_CLI = {"C05", "C06", "C20", "C01", "C18", "C04"}


RULES = {
    "C01": "behaviours = document x configuration x five entry points; non-trivial = the tokenizer found at least one tag token / something was removed or listed; distinct by (source, configuration, operations)",
    "C02": "behaviours = one clean per generated document; non-trivial = the result differs from the source (something was removed); distinct by (source, configuration)",
    "C03": "behaviours = one clean per generated document; non-trivial = the result differs from the source (something was removed); distinct by (source, configuration)",
    "C04": "behaviours = one clean per generated document; every behaviour counts (identity must hold whenever the reference finds nothing ready; the TLA+ predicate decides the antecedent); distinct by (source, configuration)",
    "C05": "behaviours = one (to, offset) pair stepped through the clock grid; non-trivial = the evaluator answered both ready and not ready along the grid (the boundary was crossed)",
    "C06": "behaviours = one target set with an evaluator call per pool name and a clean of the probe document; non-trivial = both verdicts occur",
    "C07": "behaviours = one tokenization per string; non-trivial = at least two tokens",
    "C08": "behaviours = one tokenization per string; non-trivial = at least one tag token",
    "C09": "behaviours = parse + clean of one rendered tag; non-trivial = the tag has at least one attribute",
    "C10": "behaviours = one tree per token sequence; non-trivial = at least one element (pair) in the tree",
    "C11": "behaviours = one clean per generated unwrap document; non-trivial = the result differs from the source; distinct by (source, configuration); the antecedent (block style, ready unwrap-block, no tag on a wrapper line) is measured by TLC on a sample (antecedent_sample)",
    "C12": "behaviours = one clean per generated unwrap document; non-trivial = the result differs from the source; distinct by (source, configuration); the antecedent (a dedent actually takes place) is measured by TLC on a sample (antecedent_sample)",
    "C13": "behaviours = one clean per generated block document; non-trivial = the result differs from the source; distinct by (source, configuration)",
    "C14": "behaviours = one clean per generated document (block, unwrap, inline); non-trivial = the result differs from the source; distinct by (source, configuration)",
    "C15": "behaviours = clean + list (JSON, pretty, JSON again) per document; non-trivial = at least one item / something removed",
    "C16": "behaviours = list and list_all in both formats per document; non-trivial = at least one item",
    "C17": "behaviours = list + list_all (JSON) per document; non-trivial = at least one item",
    "C18": "behaviours = clean + list under a base spelling, respelling, clean + list again; non-trivial = something was removed",
    "C19": "behaviours = one document x one configuration chain (at-once clean, then commit + clean per step); non-trivial = something was removed",
    "C20": "behaviours = one library call + one process run per option record; every behaviour counts",
}


ASSUMPTIONS = [
    "TLC, the JVM, serde_json (JSON validity in the harness) and the Rust runtime's panic reporting are trusted",
    "the reference semantics (Layer R, spec/*.tla) is written from the property texts; documents it classifies as lenient (tags outside the grammar, duplicate to/name attributes, date spellings between canonical and listed-malformed) are unconstrained and not counted as non-trivial",
    "bounded exploration: exhaustive inside the generator bounds listed per job, seeded simulation / junk beyond them",
    "the harness is built from /repo's working tree with the cargo feature verif-hooks, overflow checks and debug assertions on",
]


# ---------------------------------------------------------------------------------------------------------------
# scale: pumped documents (GenPump).  "\x01" inside a unit is replaced by the repetition index.
PUMP_UNITS = {
    "open":    ("<x>", ""),                                   # k unclosed opening tags of an unregistered name in front of the core
    "stray":   ("</x>", ""),                                  # k stray closing tags
    "nest":    ("<x c='\x01'>\n", "</x>\n"),                  # the core nested k deep in unregistered elements
    "nest-p":  ("<rm name='b'>\n", "</rm>\n"),                # ... in pending elements
    "lines":   ("p\x01;\n", ""),                              # k lines in front (line numbers of the core grow)
    "after":   ("", "q\x01;\n"),                              # k lines behind
    "ready":   ("<rm name='a'>\nr\x01;\n</rm>\ns\x01;\n", ""),   # k removed regions in front of the core
    "pending": ("<rm name='b'>\nr\x01;\n</rm>\n", ""),        # k pending regions in front
    "indent":  (" ", ""),                                     # the core's first line indented by k blanks
    "mb":      ("é", "あ"),                                    # k two-byte characters in front, k three-byte characters behind
    "mb4":     ("😀", ""),                                    # k four-byte characters in front (byte offsets run away from character offsets)
    "blank":   ("\n", "\n"),                                  # k empty lines around the core
}
PUMP_CORES = ["<rm name='a'>\n  x1;\n</rm>\ny1;\n",
              "k0;\n<rm name='a' unwrap-block>\nif (f) {\n  k1;\n  <tl to='2000-01-01 00:00:00'>\n  old;\n  </tl>\n  k2;\n}\n</rm>\nz1;"]


def pump_job(ctx, invariants, ops, units, ks, cores=(0, 1), name="pumped"):
    """documents pumped to a size no exhaustive family reaches; few behaviours, each of them large"""
    from vlib import TlaSet
    gens = [{"base": "GenPump", "workers": 2,
             "consts": {"Units": [[Chars(PUMP_UNITS[u][0]), Chars(PUMP_UNITS[u][1])] for u in units],
                        "Cores": [Chars(PUMP_CORES[c]) for c in cores], "Ks": TlaSet(list(ks))}}]
    ctx.job(name, gens=gens, invariants=invariants, ops=ops, cfg={"ds": "<", "de": ">"}, nontrivial=has_ready, shards=8)


def cli_big_job(ctx, invariants=("Inv_C20",), targets=("a",), ks=None, nunits=3):
    """documents beyond every buffer size of a pipe or a chunked reader (8 KiB, 64 KiB), multi-byte characters at every
    alignment, through standard input and through a file: the command must return what the library returns"""
    from vlib import TlaSet
    q = ctx.quick

    def cli(inp, outp, mode, js):
        return {"op": "cli", "input": inp, "output": outp, "mode": mode, "json": js, "targets_via": "flags", "tz": "unset", "lang": "",
                "now_zone_min": 0, "file_targets": [], "flag_targets": [Chars(t) for t in targets], "omit": []}
    ops = [{"op": "clean"}, cli("stdin", "stdout", "clean", False), cli("file", "file", "clean", False),
           {"op": "list_json"}, cli("stdin", "stdout", "list", True)]
    units = [[Chars("é"), Chars("あ")], [Chars("aé"), Chars("😀b")], [Chars("p\x01; é\n"), Chars("")]]
    gens = [{"base": "GenPump", "workers": 2,
             "consts": {"Units": units[:nunits], "Cores": [Chars(PUMP_CORES[0])], "Ks": TlaSet(ks or ([3000, 9000] if q else [1500, 3000, 9000, 25000]))}}]
    ctx.job("cli-big", gens=gens, invariants=list(invariants), ops=ops, cli=True,
            cfg={"ds": "<", "de": ">", "tl": "tl", "rm": "rm", "off": "+00:00", "now": [19000, 0], "targets": list(targets)}, nontrivial=None, shards=6)


def hist_pumped_job(ctx):
    """histories on deeply nested documents: the core (an unwrap-block that expires later around an element that expires
    first) inside k unregistered / pending wrappers; at-once clean with the final configuration, then commit + clean per step"""
    from vlib import TlaSet, cps
    t = [[11474, 0], [11839, 0], [12204, 0]]
    core = ("c0;\n<tl to='2002-01-01 00:00:00' unwrap-block>\nif (a) {\n  k1;\n  <tl to='2001-01-01 00:00:00'>\n  old;\n  </tl>\n"
            "  <rm name='m2'>\n  gone;\n  </rm>\n  k2;\n}\n</tl>\nz1;\n")
    chain = [{"now": t[0], "targets": []}, {"now": t[1], "targets": ["m2"]}]
    ops = [{"op": "config", "now": chain[-1]["now"], "targets": [cps(x) for x in chain[-1]["targets"]]}, {"op": "clean"}]
    for st in chain:
        ops += [{"op": "config", "now": st["now"], "targets": [cps(x) for x in st["targets"]]}, {"op": "commit"}, {"op": "clean"}]
    units = [[Chars("<x c='\x01'>\n"), Chars("</x>\n")], [Chars("<rm name='zz'>\n"), Chars("</rm>\n")], [Chars("p\x01;\n"), Chars("q\x01;\n")]]
    gens = [{"base": "GenPump", "workers": 2,
             "consts": {"Units": units, "Cores": [Chars(core)], "Ks": TlaSet([7, 8, 9, 40] if ctx.quick else [1, 7, 8, 9, 16, 17, 40, 100])}}]
    ctx.job("hist-pumped", gens=gens, invariants=["Inv_C19"], ops=ops, cfg={"ds": "<", "de": ">", "targets": []}, nontrivial=has_ready, shards=6)
