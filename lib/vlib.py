"""Orchestration helpers for the chiritori TLA+ verification machinery.

Pipeline of one job:   TLC generator (spec -> behaviours)  ->  harness/chk (real code, records trace)
                       ->  TLC trace validation against spec/Trace.tla with the property invariants.
Exit codes of bin/check: 0 property held on everything explored, 1 VIOLATION, 2 tool error / timeout.
"""
import hashlib
import json
import os
import re
import shutil
import subprocess
import sys
import time

VERIF = os.path.dirname(os.path.dirname(os.path.abspath(__file__)))
SPEC = os.path.join(VERIF, "spec")
WORK = os.path.join(VERIF, ".work")
# The registered checks always build from /repo's working tree.  For experiments with seeded changes (bin/seeded) the
# same machinery can be pointed at a scratch worktree with VERIF_REPO=<dir>: the harness sources are copied into
# <dir>/.verif_harness with the path dependency rewritten, so /repo itself is never touched.
REPO = os.environ.get("VERIF_REPO", "/repo")
if REPO == "/repo":
    HARNESS = os.path.join(VERIF, "harness")
else:
    HARNESS = os.path.join(REPO, ".verif_harness")
    WORK = os.path.join(REPO, ".verif_work")
CHK = os.path.join(HARNESS, "target", "release", "chk")
CLI_TARGET = os.path.join(HARNESS, "target-cli")
CLI_BIN = os.path.join(CLI_TARGET, "debug", "chiritori")
NCPU = os.cpu_count() or 4
WORKERS = max(2, min(16, NCPU))


class ToolError(Exception):
    pass


def log(*a):
    print(*a, file=sys.stderr, flush=True)


def cps(s):
    return [ord(c) for c in s]


def uncps(a):
    try:
        return "".join(chr(c) for c in a)
    except Exception:
        return repr(a)


def tla_seq(a):
    """Python list of ints / nested lists / strings-as-code-points -> TLA+ tuple literal."""
    if isinstance(a, str):
        a = cps(a)
    if isinstance(a, (list, tuple)):
        return "<<" + ", ".join(tla_seq(x) if not isinstance(x, int) else str(x) for x in a) + ">>"
    if isinstance(a, bool):
        return "TRUE" if a else "FALSE"
    if isinstance(a, int):
        return str(a)
    if isinstance(a, dict):
        return "[" + ", ".join("%s |-> %s" % (k, tla_val(v)) for k, v in a.items()) + "]"
    raise ValueError(a)


def tla_val(v):
    """JSON-like python value -> TLA+ expression; python str -> TLA+ string, Chars(...) -> code points."""
    if isinstance(v, Chars):
        return tla_seq(cps(v.s))
    if isinstance(v, TlaSet):
        return "{" + ", ".join(tla_val(x) for x in v.items) + "}"
    if isinstance(v, TlaRaw):
        return v.text
    if isinstance(v, bool):
        return "TRUE" if v else "FALSE"
    if isinstance(v, int):
        return str(v)
    if isinstance(v, str):
        return json.dumps(v)
    if isinstance(v, (list, tuple)):
        return "<<" + ", ".join(tla_val(x) for x in v) + ">>"
    if isinstance(v, dict):
        return "[" + ", ".join("%s |-> %s" % (k, tla_val(x)) for k, x in v.items()) + "]"
    raise ValueError(v)


class TlaSet:
    def __init__(self, items):
        self.items = list(items)


class TlaRaw:
    """a literal TLA+ expression"""

    def __init__(self, text):
        self.text = text


class Chars:
    """marks a python string that must become a sequence of code points in TLA+"""

    def __init__(self, s):
        self.s = s


def sh(cmd, timeout=None, env=None, cwd=None, stdout=subprocess.PIPE):
    e = dict(os.environ)
    if env:
        e.update(env)
    return subprocess.run(cmd, timeout=timeout, env=e, cwd=cwd, stdout=stdout, stderr=subprocess.STDOUT, text=True)


def build_harness(need_cli=False):
    """(Re)build the harness against /repo's current working tree, hooks on."""
    t0 = time.time()
    env = {"CARGO_NET_OFFLINE": "true"}
    if REPO != "/repo":
        src = os.path.join(VERIF, "harness")
        os.makedirs(os.path.join(HARNESS, "src"), exist_ok=True)
        os.makedirs(os.path.join(HARNESS, ".cargo"), exist_ok=True)
        for f in os.listdir(os.path.join(src, "src")):
            shutil.copy(os.path.join(src, "src", f), os.path.join(HARNESS, "src", f))
        shutil.copy(os.path.join(src, ".cargo", "config.toml"), os.path.join(HARNESS, ".cargo", "config.toml"))
        shutil.copy(os.path.join(src, "Cargo.lock"), os.path.join(HARNESS, "Cargo.lock"))
        toml = open(os.path.join(src, "Cargo.toml")).read().replace('"/repo/chiritori"', '"%s/chiritori"' % REPO)
        with open(os.path.join(HARNESS, "Cargo.toml"), "w") as f:
            f.write(toml)
    r = sh(["cargo", "build", "--release", "--offline"], cwd=HARNESS, env=env, timeout=900)
    if r.returncode != 0:
        raise ToolError("harness build failed:\n" + r.stdout[-3000:])
    if need_cli:
        r = sh(["cargo", "build", "--offline", "-p", "chiritori-cli", "--target-dir", CLI_TARGET],
               cwd=REPO, env=env, timeout=900)
        if r.returncode != 0:
            raise ToolError("cli build failed:\n" + r.stdout[-3000:])
    return time.time() - t0


def workdir(name):
    d = os.path.join(WORK, name)
    shutil.rmtree(d, ignore_errors=True)
    os.makedirs(d)
    for f in os.listdir(SPEC):
        if f.endswith(".tla"):
            shutil.copy(os.path.join(SPEC, f), d)
    return d


TLC_JAVA = ["java", "-XX:+UseParallelGC", "-Xss1g", "-cp",
            "/opt/veriftools/tla/tla2tools.jar:/opt/veriftools/tla/CommunityModules-deps.jar"]


def run_tlc(d, module, cfgtext, env=None, timeout=600, workers=None, extra=None, heap="8g", deque=False):
    cfgname = module + ".cfg"
    with open(os.path.join(d, cfgname), "w") as f:
        f.write(cfgtext)
    md = os.path.join(d, "md_" + module)
    shutil.rmtree(md, ignore_errors=True)
    java = list(TLC_JAVA)
    java.insert(1, "-Xmx" + heap)
    if deque:
        java.insert(1, "-Dtlc2.tool.queue.IStateQueue=StateDeque")
    cmd = java + ["tlc2.TLC", "-workers", str(workers or WORKERS), "-config", cfgname, "-metadir", md,
                  "-cleanup", "-noGenerateSpecTE"] + (extra or []) + [module + ".tla"]
    t0 = time.time()
    e = dict(os.environ)
    e.pop("JAVA_TOOL_OPTIONS", None)
    if env:
        e.update(env)
    outp = os.path.join(d, module + ".out")
    try:
        with open(outp, "w") as fo:
            r = subprocess.run(cmd, cwd=d, env=e, timeout=timeout, stdout=fo, stderr=subprocess.STDOUT)
        rc = r.returncode
    except subprocess.TimeoutExpired:
        raise ToolError("TLC timeout after %ss on %s" % (timeout, module))
    finally:
        shutil.rmtree(md, ignore_errors=True)
    return rc, outp, time.time() - t0


STAT_RE = re.compile(r"(\d+) states generated, (\d+) distinct states found, (\d+) states left on queue")


def tlc_stats(outp):
    gen = dist = 0
    with open(outp, errors="replace") as f:
        for line in f:
            m = STAT_RE.search(line)
            if m:
                gen, dist = int(m.group(1)), int(m.group(2))
    return gen, dist


def gen_module(d, name, base, consts):
    """write module `name` EXTENDS base with c_<K> == value definitions; return cfg CONSTANTS text"""
    lines = ["---- MODULE %s ----" % name, "EXTENDS %s" % base]
    cfg = []
    for k, v in consts.items():
        if isinstance(v, bool):
            cfg.append(" %s = %s" % (k, "TRUE" if v else "FALSE"))
        elif isinstance(v, int):
            cfg.append(" %s = %d" % (k, v))
        elif isinstance(v, str):
            cfg.append(" %s = %s" % (k, json.dumps(v)))
        else:
            lines.append("c_%s == %s" % (k, tla_val(v)))
            cfg.append(" %s <- c_%s" % (k, k))
    lines.append("====")
    with open(os.path.join(d, name + ".tla"), "w") as f:
        f.write("\n".join(lines) + "\n")
    return "CONSTANTS\n" + "\n".join(cfg) + "\n"


def base_consts(cfg, ops, gen):
    return {
        "DS": Chars(cfg["ds"]), "DE": Chars(cfg["de"]), "TL": Chars(cfg["tl"]), "RM": Chars(cfg["rm"]),
        "OFF": Chars(cfg["off"]), "NOW": list(cfg["now"]), "TARGETS": [Chars(t) for t in cfg["targets"]],
        "OPS": ops, "GEN": re.sub(r"[^A-Za-z0-9_.\-]", "_", gen),
    }


def cfg_json(cfg):
    return {"ds": cps(cfg["ds"]), "de": cps(cfg["de"]), "tl": cps(cfg["tl"]), "rm": cps(cfg["rm"]),
            "off": cps(cfg["off"]), "now": list(cfg["now"]), "targets": [cps(t) for t in cfg["targets"]]}


def tlc_generate(d, name, base, consts, cfgbody, out_path, defaults=None, timeout=600, simulate=None,
                 seed=0, append=False, workers=None, heap="4g"):
    """Run a generator spec and collect the printed behaviours into out_path (ndjson).
    defaults: keys added to every behaviour that lacks them (cfg, ops, gen). Returns (count, states, secs)."""
    cfgtext = cfgbody + gen_module(d, name, base, consts)
    extra = []
    if simulate:
        extra = ["-simulate", "num=%d" % simulate[0], "-depth", str(simulate[1]), "-seed", str(seed)]
    rc, outp, secs = run_tlc(d, name, cfgtext, timeout=timeout, extra=extra, workers=workers, heap=heap)
    n = 0
    seen_err = None
    with open(outp, errors="replace") as f, open(out_path, "a" if append else "w") as fo:
        pending = None
        for line in f:
            if pending is not None:                       # TLC wrapped the tuple over several lines
                pending += " " + line.strip()
                if not pending.endswith(">>"):
                    continue
                line = re.sub(r'^<<\s*"BEH",\s*', '<<"BEH", ', pending)
                line = re.sub(r'\s*>>$', '>>', line)
                pending = None
            elif line.startswith('<< "BEH"') or line.rstrip() == '<<':
                pending = line.strip()
                if not pending.endswith(">>"):
                    continue
                line = re.sub(r'^<<\s*"BEH",\s*', '<<"BEH", ', pending)
                line = re.sub(r'\s*>>$', '>>', line)
                pending = None
            if line.startswith('<<"BEH", '):
                body = line.strip()[len('<<"BEH", '):-2]
                try:
                    rec = json.loads(json.loads(body))
                except Exception as ex:
                    raise ToolError("unparsable generator line: %s (%s)" % (line[:200], ex))
                if defaults:
                    for k, v in defaults.items():
                        rec.setdefault(k, v)
                rec["id"] = "%s:%s" % (name, rec.get("id") or n)
                fo.write(json.dumps(rec, separators=(",", ":")) + "\n")
                n += 1
            elif line.startswith("Error:") and seen_err is None:
                seen_err = line.strip()
    if rc != 0 or seen_err:
        tail = open(outp, errors="replace").read()[-2500:]
        raise ToolError("generator %s failed rc=%s %s\n%s" % (name, rc, seen_err, tail))
    gen, dist = tlc_stats(outp)
    return n, dist, secs


def run_harness(inp, outp, cli=False, fmt_hooks=False, threads=None, timeout=900, env=None):
    cmd = [CHK, "run", inp, outp, "--threads", str(threads or WORKERS)]
    if cli:
        cmd += ["--cli", CLI_BIN]
    if fmt_hooks:
        cmd += ["--fmt-hooks"]
    t0 = time.time()
    r = sh(cmd, timeout=timeout, env=env)
    if r.returncode != 0:
        raise ToolError("harness run failed rc=%d: %s" % (r.returncode, r.stdout[-2000:]))
    return time.time() - t0


def count_lines(p):
    n = 0
    with open(p, "rb") as f:
        for _ in f:
            n += 1
    return n


def read_line(p, idx):
    with open(p) as f:
        for i, line in enumerate(f, 1):
            if i == idx:
                return json.loads(line)
    return None


APPLIES_RE = re.compile(r'<<\s*"APPLIES",\s*"([^"]+)",\s*"([^"]*)"\s*>>')
DRIFT_RE = re.compile(r'<<\s*"DRIFT",\s*"([^"]+)",\s*"([^"]*)"\s*>>')
KF_RE = re.compile(r'<<\s*"KNOWN-FINDING",\s*"([^"]+)",\s*"([^"]+)",\s*"([^"]*)"\s*>>')
B_RE = re.compile(r"^/\\ b = (\d+)\s*$")
INV_RE = re.compile(r"Error: Invariant (\S+) is violated")


MAX_SHARD_BYTES = 40 * 1024 * 1024       # a shard is parsed into one TLA+ value and its states are queued: keep it small
MAX_PARALLEL_SHARDS = 8


def _split_trace(trace_path, d, shards):
    """contiguous shards: at least `shards` of them, more if a shard would exceed MAX_SHARD_BYTES"""
    n = count_lines(trace_path)
    size = os.path.getsize(trace_path)
    shards = max(1, min(max(shards, (size + MAX_SHARD_BYTES - 1) // MAX_SHARD_BYTES), n))
    per = (n + shards - 1) // shards
    parts = []
    with open(trace_path) as f:
        for k in range(shards):
            p = os.path.join(d, "trace_%03d.ndjson" % k)
            cnt = 0
            with open(p, "w") as fo:
                for _ in range(per):
                    line = f.readline()
                    if not line:
                        break
                    fo.write(line)
                    cnt += 1
            if cnt:
                parts.append((p, k * per, cnt))
            else:
                os.unlink(p)
    return parts


def tlc_validate(d, trace_path, invariants, timeout=900, skip=(), name="Trace", workers=None, constants="",
                 shards=None, heavy=False):
    """Validate recorded behaviours against spec/Trace.tla with the given invariants.
    The trace is split into shards, each validated by its own single-worker TLC (initial-state generation is
    single-threaded and contended in TLC, so many small processes beat one process with many workers); at most
    MAX_PARALLEL_SHARDS run at a time.
    Returns dict(ok, inv, b, states, transitions, secs, deadlock, outp); b is the 1-based global index."""
    n = count_lines(trace_path)
    if shards is None:
        shards = max(1, min(WORKERS // 2, n // 150 + 1))
    parts = _split_trace(trace_path, d, shards)
    cfgtext = "INIT TVInit\nNEXT TraceNext\nCHECK_DEADLOCK TRUE\n" + constants
    for inv in invariants:
        cfgtext += "INVARIANT %s\n" % inv
    t0 = time.time()
    deadline = t0 + timeout
    res = {"ok": True, "inv": None, "b": None, "states": 0, "transitions": 0, "secs": 0, "deadlock": False,
           "outp": None, "error": None, "known": {}}

    def launch(k, p, off, cnt):
        mod = "TV%03d" % k
        local_skip = [s_ - off for s_ in skip if off < s_ <= off + cnt]
        with open(os.path.join(d, mod + ".tla"), "w") as f:
            f.write("---- MODULE %s ----\nEXTENDS %s\nExcludedBeh == {%s}\nTVInit == TraceInit /\\ b \\notin ExcludedBeh\n====\n"
                    % (mod, name, ", ".join(str(x) for x in local_skip)))
        with open(os.path.join(d, mod + ".cfg"), "w") as f:
            f.write(cfgtext)
        md = os.path.join(d, "md_" + mod)
        shutil.rmtree(md, ignore_errors=True)
        java = list(TLC_JAVA)
        java.insert(1, "-Xmx3g")
        java.insert(1, "-XX:ParallelGCThreads=2")
        # short shards: C1 only (JIT warm-up of 8 parallel JVMs otherwise dominates); long shards: full tiered
        java.insert(1, "-XX:TieredStopAtLevel=1" if (cnt < 20000 and not heavy) else "-XX:CICompilerCount=2")
        cmd = java + ["tlc2.TLC", "-workers", "1", "-config", mod + ".cfg", "-metadir", md, "-cleanup",
                      "-noGenerateSpecTE", mod + ".tla"]
        e = dict(os.environ)
        e.pop("JAVA_TOOL_OPTIONS", None)
        e["TRACE"] = p
        outp = os.path.join(d, mod + ".out")
        fo = open(outp, "w")
        return (subprocess.Popen(cmd, cwd=d, env=e, stdout=fo, stderr=subprocess.STDOUT), fo, outp, off, md, p)

    def collect(pr, fo, outp, off, md, p):
        fo.close()
        shutil.rmtree(md, ignore_errors=True)
        gen, dist = tlc_stats(outp)
        res["states"] += dist
        res["transitions"] += gen
        text = open(outp, errors="replace").read()
        for mk in APPLIES_RE.finditer(text):
            res.setdefault("applies", set()).add(mk.group(2))
        for mk in DRIFT_RE.finditer(text):
            res.setdefault("drift", {}).setdefault(mk.group(1), []).append(mk.group(2))
        for mk in KF_RE.finditer(text):
            res["known"].setdefault((mk.group(1), mk.group(2)), []).append(mk.group(3))
        if "Model checking completed. No error has been found." in text:
            if len(parts) > MAX_PARALLEL_SHARDS:
                try:
                    os.unlink(outp)
                    os.unlink(p)
                except OSError:
                    pass
            return
        if not res["ok"]:
            return                        # report the first failing shard only
        res["ok"] = False
        res["outp"] = outp
        m = INV_RE.search(text)
        last_b = None
        for line in text.splitlines():
            mb = B_RE.match(line)
            if mb:
                last_b = int(mb.group(1)) + off
        res["b"] = last_b
        if m:
            res["inv"] = m.group(1)
        elif "Deadlock reached" in text:
            res["deadlock"] = True
            res["error"] = "trace not accepted (deadlock): an event had no enabled action"
        else:
            res["error"] = "TLC failed rc=%s: %s" % (pr.returncode, text[-3000:])

    pending = list(enumerate(parts))
    running = []
    while pending or running:
        while pending and len(running) < MAX_PARALLEL_SHARDS and res["ok"]:
            k, (p, off, cnt) = pending.pop(0)
            running.append(launch(k, p, off, cnt))
        if not res["ok"]:
            pending = []
        still = []
        for item in running:
            pr = item[0]
            if pr.poll() is None:
                if time.time() > deadline:
                    for it in running:
                        try:
                            it[0].kill()
                        except Exception:
                            pass
                    raise ToolError("TLC trace validation timeout after %ss" % timeout)
                still.append(item)
            else:
                collect(*item)
        running = still
        if running:
            time.sleep(0.2)
    res["secs"] = time.time() - t0
    return res


def state_dump(outp, maxlen=6000):
    """the last state of TLC's error trace, for the replay file"""
    text = open(outp, errors="replace").read()
    i = text.rfind("State ")
    j = text.find("\n\n", i)
    return text[i:j if j > 0 else None][:maxlen]


def decode_behaviour(b):
    """human-readable copy of a recorded behaviour"""
    def dec(v, key=None):
        if isinstance(v, list) and v and all(isinstance(x, int) for x in v) and key in (
                "src", "out", "text", "block", "raw", "ds", "de", "tl", "rm", "off", "name", "n", "v", "to",
                "stdout", "outfile", "infile_after"):
            return uncps(v)
        if isinstance(v, list):
            if key in ("targets", "vals", "file_targets", "flag_targets"):
                return [uncps(x) if isinstance(x, list) else x for x in v]
            return [dec(x, key) for x in v]
        if isinstance(v, dict):
            return {k: dec(x, k) for k, x in v.items()}
        return v
    return dec(b)


def sha(s):
    return hashlib.sha1(s.encode()).hexdigest()[:12]


def load_known_findings():
    p = os.path.join(VERIF, "known_findings.json")
    if not os.path.exists(p):
        return []
    return json.load(open(p)).get("findings", [])


def finding_matches(f, prop, beh):
    """A listed open finding matches a failing behaviour only by its exact signature:
    property, source text, delimiters and (when given) operation."""
    if f.get("status") != "open" or f.get("property") != prop:
        return False
    sig = f.get("signature", {})
    if "src" in sig and sig["src"] != uncps(beh.get("src", [])):
        return False
    c = beh.get("cfg", {})
    for k in ("ds", "de", "tl", "rm", "off"):
        if k in sig and sig[k] != uncps(c.get(k, [])):
            return False
    if "targets" in sig and sorted(sig["targets"]) != sorted(uncps(t) for t in c.get("targets", [])):
        return False
    if "now" in sig and list(sig["now"]) != list(c.get("now", [])):
        return False
    return "src" in sig
