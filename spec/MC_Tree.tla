------------------------------- MODULE MC_Tree -------------------------------
(***************************************************************************)
(* Model checking of the tree layer without running any code: on every     *)
(* sequence of tags / texts up to length N, the transcribed recursive      *)
(* descent (ImplTree) pairs exactly as the stack rule of Tree.tla, and the *)
(* pre-order of its result visits every token once, in order (C10).        *)
(***************************************************************************)
EXTENDS ImplTree, Tree, TLC

CONSTANTS NamesPool,   \* sequence of tag names (openers and closers, e.g. "a", "/a", "/x")
          N

VARIABLE s     \* sequence of indices: 0 = text token, i > 0 = tag with name NamesPool[i]

Init == s = <<>>
Next == Len(s) < N /\ \E i \in 0..Len(NamesPool) : s' = Append(s, i)

Tg == [i \in 1..Len(s) |-> IF s[i] = 0 THEN [k |-> 0, st |-> "none", cls |-> "text", name |-> <<>>]
                                       ELSE [k |-> 1, st |-> "ok", cls |-> "ok", name |-> NamesPool[s[i]]]]

RECURSIVE FlatToks(_)
FlatToks(parts) ==
  IF parts = <<>> THEN <<>>
  ELSE LET n == parts[1] IN
       (IF n.el THEN <<n.tok>> \o FlatToks(n.kids) \o <<n.close>> ELSE <<n.tok>>) \o FlatToks(Tail(parts))

ImplRefines ==
  /\ ImplPairs(Tg) = StackPairs(Tg)
  /\ FlatToks(ImplTree(Tg)) = [i \in 1..Len(s) |-> i]
=============================================================================
