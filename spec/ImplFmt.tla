------------------------------ MODULE ImplFmt ------------------------------
(***************************************************************************)
(* Layer I: transcription of chiritori/src/code/formatter.rs, the five     *)
(* seam formatters, the block formatter and the finders of code/utils      *)
(* (tree with the repair "treat the start of the content as the start of a *)
(* line" and the sorting of block ranges).  Character offsets, see         *)
(* ImplMark.  t is the content after the markers were deleted; a seam is   *)
(* the offset at which something was deleted.                              *)
(***************************************************************************)
EXTENDS Text, Integers

At(t, p) == IF p >= 0 /\ p < Len(t) THEN t[p + 1] ELSE -1      \* character at 0-based offset, -1 outside

\* find_next_line_break_pos: skips blanks, stops at a line break; other characters stop the search when pausing
RECURSIVE FindNext(_, _, _)
FindNext(t, p, pause) ==
  IF p >= Len(t) THEN -1
  ELSE IF At(t, p) = NL THEN p
  ELSE IF IsBlank(At(t, p)) \/ ~pause THEN FindNext(t, p + 1, pause)
  ELSE -1

\* find_prev_line_break_pos: examines p - 1, p - 2, ..., 0
RECURSIVE FindPrev(_, _, _)
FindPrev(t, p, pause) ==
  IF p <= 0 THEN -1
  ELSE IF p - 1 >= Len(t) THEN -1
  ELSE IF At(t, p - 1) = NL THEN p - 1
  ELSE IF IsBlank(At(t, p - 1)) \/ ~pause THEN FindPrev(t, p - 1, pause)
  ELSE -1

\* find_next_char_pos: first offset >= p that holds something other than a blank
RECURSIVE FindNextChar(_, _)
FindNextChar(t, p) == IF p >= Len(t) THEN -1 ELSE IF IsBlank(At(t, p)) THEN FindNextChar(t, p + 1) ELSE p

Then(x, F(_)) == IF x = -1 THEN -1 ELSE F(x)

\* ---- seam formatters: each returns <<start, end>> -----------------------------------------------------------
RECURSIVE IndentScan(_, _)
IndentScan(t, cursor) ==          \* IndentRemover's backward loop: start of the blank run, -1 if no line break precedes
  IF cursor = 0 THEN -1
  ELSE IF IsBlank(At(t, cursor - 1)) THEN IndentScan(t, cursor - 1)
  ELSE IF At(t, cursor - 1) = NL THEN cursor
  ELSE -1

IndentRemover(t, p) ==
  IF At(t, p) # NL THEN <<p, p>>
  ELSE LET s == IndentScan(t, p) IN IF s = -1 THEN <<p, p>> ELSE <<s, p>>

FirstLineIndentRemover(t, p) ==
  IF At(t, p) # NL THEN <<p, p>>
  ELSE IF \A i \in 1..p : IsBlank(t[i]) THEN <<0, p>> ELSE <<p, p>>

EmptyLineRemover(t, p) ==
  IF At(t, p) # NL THEN <<p, p>>
  ELSE IF FindPrev(t, p, TRUE) = -1 /\ ~(\A i \in 1..p : IsBlank(t[i])) THEN <<p, p>>   \* the seam's own line is not empty
  ELSE LET nextNotEmpty == Then(FindNext(t, p, TRUE), LAMBDA x : FindNext(t, x + 1, TRUE)) = -1
           prevNotEmpty == Then(FindPrev(t, p, TRUE), LAMBDA x : FindPrev(t, x, TRUE)) = -1
       IN IF nextNotEmpty /\ prevNotEmpty THEN <<p, p + 1>> ELSE <<p, p>>

PrevLineBreakRemover(t, p) ==
  LET lb == Then(FindPrev(t, p, TRUE), LAMBDA x : FindPrev(t, x, TRUE)) IN
  IF lb # -1 THEN <<lb + 1, p>> ELSE <<p, p>>

LineStartBlank(t, p) ==           \* nothing but blanks between the previous line break (or the start) and offset p
  LET q == FindPrev(t, p, TRUE) IN q # -1 \/ \A i \in 1..p : IsBlank(t[i])

NextLineBreakRemover(t, p) ==
  IF ~LineStartBlank(t, p) THEN <<p, p>> ELSE
  LET lb == Then(FindNext(t, p, TRUE), LAMBDA x : FindNext(t, x + 1, TRUE)) IN
  IF lb # -1 THEN <<p, lb>> ELSE <<p, p>>

\* format_block: union (min start, max end) over the formatters registered by build_formatters
FormatSeam(t, p) ==
  LET rs == <<IndentRemover(t, p), FirstLineIndentRemover(t, p), EmptyLineRemover(t, p),
              PrevLineBreakRemover(t, p), NextLineBreakRemover(t, p)>>
  IN <<Min2(p, Min2(rs[1][1], Min2(rs[2][1], Min2(rs[3][1], Min2(rs[4][1], rs[5][1]))))),
       Max2(p, Max2(rs[1][2], Max2(rs[2][2], Max2(rs[3][2], Max2(rs[4][2], rs[5][2])))))>>

\* ---- BlockIndentRemover ---------------------------------------------------------------------------------------
IndentOfs(t, start) ==
  LET p == FindPrev(t, start, TRUE) IN
  IF p # -1 THEN start - p - 1
  ELSE IF \A i \in 1..start : IsBlank(t[i]) THEN start ELSE 0

GetIndentLen(t, p) ==
  LET q == FindPrev(t, p, FALSE) IN
  IF q = -1 THEN 0 ELSE LET e == FindNextChar(t, q + 1) IN IF e = -1 THEN 0 ELSE e - q - 1

RECURSIVE BlockLoop(_, _, _, _, _, _)
BlockLoop(t, current, endPos, ofs, ilen, acc) ==
  IF ~(endPos > current) THEN acc
  ELSE LET nb == FindNext(t, current, FALSE) IN
       IF nb = -1 THEN acc
       ELSE LET pos == nb + 1 IN
            IF pos > endPos THEN acc
            ELSE LET ip == FindNextChar(t, current)
                     s == Min2(current + ofs, ip)
                     e == Min2(s + ilen, ip)
                 IN BlockLoop(t, pos, endPos, ofs, ilen, IF ip # -1 /\ s # e THEN Append(acc, <<s, e>>) ELSE acc)

BlockIndentRemover(t, startPos, endPos) ==
  LET ofs == IndentOfs(t, startPos)
      first == GetIndentLen(t, startPos + 1)
      ilen == IF first > ofs THEN first - ofs ELSE 0
  IN BlockLoop(t, startPos + 1, endPos, ofs, ilen, <<>>)

\* ---- format ----------------------------------------------------------------------------------------------------
RECURSIVE SortByStart(_)
SortByStart(rs) ==                \* stable insertion sort by start (sort_by_key is stable)
  IF rs = <<>> THEN <<>>
  ELSE LET srt == SortByStart(SubSeq(rs, 1, Len(rs) - 1))
           x == rs[Len(rs)]
           k == Cardinality({i \in 1..Len(srt) : srt[i][1] <= x[1]})
       IN SubSeq(srt, 1, k) \o <<x>> \o SubSeq(srt, k + 1, Len(srt))

\* merge_ranges: new ranges are popped from the back and inserted behind the last range that starts before them
RECURSIVE ScanCursor(_, _, _)
ScanCursor(ranges, cursor, nr) ==     \* cursor: 0-based index or -1 (None)
  IF cursor = -1 THEN -1
  ELSE IF ranges[cursor + 1][1] < nr[1] THEN cursor
  ELSE IF cursor = 0 THEN -1 ELSE ScanCursor(ranges, cursor - 1, nr)

RECURSIVE MergeRangesLoop(_, _, _)
MergeRangesLoop(ranges, news, cursor) ==
  IF news = <<>> THEN ranges
  ELSE LET nr == news[Len(news)]
           c2 == ScanCursor(ranges, cursor, nr)
           ins == IF c2 = -1 THEN 0 ELSE c2 + 1          \* 0-based insertion index
       IN MergeRangesLoop(SubSeq(ranges, 1, ins) \o <<nr>> \o SubSeq(ranges, ins + 1, Len(ranges)),
                          SubSeq(news, 1, Len(news) - 1), c2)

MergeRanges(ranges, news) == IF ranges = <<>> THEN ranges ELSE MergeRangesLoop(ranges, news, Len(ranges) - 1)

RECURSIVE MergeOverlapped(_, _, _)
MergeOverlapped(ranges, i, acc) ==
  IF i > Len(ranges) THEN acc
  ELSE IF acc # <<>> /\ acc[Len(acc)][2] >= ranges[i][1]
       THEN MergeOverlapped(ranges, i + 1, [acc EXCEPT ![Len(acc)] = <<@[1], Max2(@[2], ranges[i][2])>>])
       ELSE MergeOverlapped(ranges, i + 1, Append(acc, ranges[i]))

RECURSIVE ApplyRanges(_, _, _)
ApplyRanges(t, rs, i) ==
  IF i = 0 THEN [text |-> t, crash |-> FALSE]
  ELSE IF rs[i][1] > rs[i][2] \/ rs[i][2] > Len(t) THEN [text |-> t, crash |-> TRUE]
  ELSE ApplyRanges(SubSeq(t, 1, rs[i][1]) \o SubSeq(t, rs[i][2] + 1, Len(t)), rs, i - 1)

\* pos: sequence of <<position, pair index or -1>> (get_removed_pos).
\* Result [seams, blocks, final, text, crash]
Format(t, pos) ==
  LET seams == [i \in 1..Len(pos) |-> FormatSeam(t, pos[i][1])]
      badIdx == \E i \in 1..Len(pos) : pos[i][2] # -1 /\ pos[i][2] >= Len(pos)
      blockOf(i) == IF pos[i][2] # -1 /\ pos[i][2] < Len(pos) /\ pos[i][1] < pos[pos[i][2] + 1][1]
                    THEN BlockIndentRemover(t, pos[i][1], pos[pos[i][2] + 1][1]) ELSE <<>>
      blocks == [i \in 1..Len(pos) |-> blockOf(i)]
      allBlocks == ConcatAll(blocks)
      merged == MergeOverlapped(MergeRanges(seams, SortByStart(allBlocks)), 1, <<>>)
      ap == ApplyRanges(t, merged, Len(merged))
  IN [seams |-> seams, blocks |-> blocks, final |-> merged, text |-> ap.text, crash |-> badIdx \/ ap.crash]
=============================================================================
