------------------------------ MODULE ImplMark ------------------------------
(***************************************************************************)
(* Layer I: transcription of chiritori/src/code/remover.rs and the marker  *)
(* builders (tree with the repairs "unwrap-block with exactly two lines",  *)
(* "nested unwrap-blocks keep correct pair indices", "list_all merges with *)
(* a proper two-list merge", finders examine offset 0).                    *)
(*                                                                         *)
(* Offsets are character offsets; the code works on byte offsets, but      *)
(* every scan compares single ASCII bytes and skips continuation bytes, so *)
(* the two views agree up to BytePos (the conformance check converts).     *)
(* A marker is <<start, end, pair>> with pair = -1 for none.               *)
(***************************************************************************)
EXTENDS ImplTree, Integers

\* ---- finders (code/utils/line_break_pos_finder.rs, pause_on_char = FALSE) --------------------------------
RECURSIVE NextBreakFrom(_, _)
NextBreakFrom(t, p) ==           \* least offset >= p holding a line break, -1 if none
  IF p >= Len(t) THEN -1 ELSE IF t[p + 1] = NL THEN p ELSE NextBreakFrom(t, p + 1)

RECURSIVE PrevBreakBefore(_, _)
PrevBreakBefore(t, p) ==         \* greatest offset < p holding a line break, -1 if none
  IF p <= 0 THEN -1
  ELSE IF p - 1 >= Len(t) THEN -1
  ELSE IF t[p] = NL THEN p - 1 ELSE PrevBreakBefore(t, p - 1)

\* ---- builders -------------------------------------------------------------------------------------------
\* result <<range, pairRange>>; a range is <<s, e>>; pairRange = <<>> for none
RangeBuild(o, c) == <<<<o.s, c.e>>, <<>>>>

UnwrapBuild(t, o, c) ==
  LET p1  == NextBreakFrom(t, o.e)
      end == IF p1 = -1 THEN -1 ELSE NextBreakFrom(t, p1 + 1)
      q1  == PrevBreakBefore(t, c.s)
      st  == IF q1 = -1 THEN -1 ELSE PrevBreakBefore(t, q1)
  IN IF end # -1 /\ st # -1 /\ st >= end
     THEN <<<<o.s, end>>, <<st + 1, c.e>>>>
     ELSE <<<<o.s, o.s>>, <<>>>>

HasAttrNamed(attrs, n) == \E i \in 1..Len(attrs) : attrs[i].n = n

\* ---- collect_removable_ranges ---------------------------------------------------------------------------
\* dec(node) \in {"remove", "keep", "none"}: evaluator verdict for the element (none: skip / unregistered);
\* a range tree is [range, pair, kids]
RECURSIVE Collect(_, _, _, _, _, _)
Collect(parts, t, tk, tg, dec, pending) ==
  IF parts = <<>> THEN <<<<>>, <<>>>>
  ELSE LET n == parts[1]
           rest == Collect(Tail(parts), t, tk, tg, dec, pending)
       IN IF ~n.el THEN rest
          ELSE LET v == dec[n.tok]
                   built == IF HasAttrNamed(tg[n.tok].attrs, <<117, 110, 119, 114, 97, 112, 45, 98, 108, 111, 99, 107>>)
                            THEN UnwrapBuild(t, tk[n.tok], tk[n.close]) ELSE RangeBuild(tk[n.tok], tk[n.close])
                   usable == built[1][1] < built[1][2]
                   kids == Collect(n.kids, t, tk, tg, dec, pending)
                   node(ks) == [range |-> built[1], pair |-> built[2], kids |-> ks]
               IN IF v = "remove" /\ usable
                  THEN <<<<node(kids[1])>> \o rest[1], kids[2] \o rest[2]>>
                  ELSE IF v = "keep" /\ pending /\ usable
                  THEN <<kids[1] \o rest[1], <<node(kids[2])>> \o rest[2]>>
                  ELSE <<kids[1] \o rest[1], kids[2] \o rest[2]>>

\* ---- merge_child_markers / merge_markers -----------------------------------------------------------------
Contains(r, p) == r[1] <= p /\ p < r[2]

\* absorbs children from the front (or, reversed, from the back) while they touch the marker
RECURSIVE MergeChildren(_, _, _)
MergeChildren(cms, i, m) ==      \* returns <<count absorbed, marker>>
  IF i > Len(cms) THEN <<i - 1, m>>
  ELSE IF Contains(m, cms[i][1]) \/ Contains(m, cms[i][2])
       THEN MergeChildren(cms, i + 1, <<Min2(m[1], cms[i][1]), Max2(m[2], cms[i][2])>>)
       ELSE <<i - 1, m>>

Reverse(s) == [i \in 1..Len(s) |-> s[Len(s) - i + 1]]

\* result [ms |-> markers, crash |-> BOOLEAN]
RECURSIVE MergeMarkers(_)
MergeMarkers(trees) ==
  IF trees = <<>> THEN [ms |-> <<>>, crash |-> FALSE]
  ELSE LET front == MergeMarkers(SubSeq(trees, 1, Len(trees) - 1))
           tr == trees[Len(trees)]
           ch == MergeMarkers(tr.kids)
           cms == ch.ms
           hd == MergeChildren(cms, 1, tr.range)
           sc == hd[1]
       IN IF tr.pair = <<>> THEN [ms |-> Append(front.ms, <<hd[2][1], hd[2][2], -1>>), crash |-> front.crash \/ ch.crash]
          ELSE LET tl == MergeChildren(Reverse(cms), 1, tr.pair)
                   ec == Len(cms) - tl[1]
                   current == Len(front.ms)                       \* 0-based index of the head in acc
                   endIdx == current + (ec - sc) + 1
                   rebase(k) == IF k = -1 THEN -1 ELSE IF k < sc THEN current ELSE IF k >= ec THEN endIdx ELSE k - sc + current + 1
                   mid == IF sc < ec THEN [i \in 1..(ec - sc) |-> <<cms[sc + i][1], cms[sc + i][2], rebase(cms[sc + i][3])>>] ELSE <<>>
               IN IF hd[2][2] >= tl[2][1]                                        \* a child reaches from the head into the tail
                  THEN [ms |-> Append(front.ms, <<hd[2][1], tl[2][2], -1>>), crash |-> front.crash \/ ch.crash]
                  ELSE IF ec < sc THEN [ms |-> front.ms, crash |-> TRUE]             \* usize subtraction overflows
                  ELSE [ms |-> front.ms \o <<<<hd[2][1], hd[2][2], endIdx>>>> \o mid \o <<<<tl[2][1], tl[2][2], current>>>>,
                        crash |-> front.crash \/ ch.crash]

\* ---- remove: replace_range in reverse order --------------------------------------------------------------
\* panics when a range is reversed or out of bounds; with unsorted / overlapping ranges the result is garbage
RECURSIVE ApplyRemovals(_, _, _)
ApplyRemovals(t, ms, i) ==        \* i from Len(ms) down to 1; returns [text, crash]
  IF i = 0 THEN [text |-> t, crash |-> FALSE]
  ELSE LET m == ms[i] IN
       IF m[1] > m[2] \/ m[2] > Len(t) THEN [text |-> t, crash |-> TRUE]
       ELSE ApplyRemovals(SubSeq(t, 1, m[1]) \o SubSeq(t, m[2] + 1, Len(t)), ms, i - 1)

\* get_removed_pos: <<position after removal, pair>>; crash on usize underflow
RECURSIVE RemovedPos(_, _, _, _)
RemovedPos(ms, i, removedLen, acc) ==
  IF i > Len(ms) THEN [pos |-> acc, crash |-> FALSE]
  ELSE IF ms[i][1] < removedLen \/ ms[i][2] < ms[i][1] THEN [pos |-> acc, crash |-> TRUE]
  ELSE RemovedPos(ms, i + 1, removedLen + (ms[i][2] - ms[i][1]), Append(acc, <<ms[i][1] - removedLen, ms[i][3]>>))

\* ---- build_remove_marker_all: two-list merge of ready and pending markers --------------------------------
RECURSIVE MergeAll(_, _, _, _)
MergeAll(rs, ps, j, acc) ==       \* rs: ready markers still to place; ps: pending markers; j: next pending index
  IF rs = <<>> THEN acc \o [k \in 1..(Len(ps) - j + 1) |-> <<ps[j + k - 1][1], ps[j + k - 1][2], ps[j + k - 1][3], 0>>]
  ELSE LET r == rs[1] IN
       IF j <= Len(ps) /\ ps[j][1] < r[1] THEN MergeAll(rs, ps, j + 1, Append(acc, <<ps[j][1], ps[j][2], ps[j][3], 0>>))
       ELSE IF j <= Len(ps) /\ ps[j][1] < r[2] THEN MergeAll(rs, ps, j + 1, acc)
       ELSE MergeAll(Tail(rs), ps, j, Append(acc, <<r[1], r[2], r[3], 1>>))
=============================================================================
