------------------------------ MODULE GenAtoms ------------------------------
(***************************************************************************)
(* G_atoms: every concatenation of <= N atoms from an atom alphabet (whole *)
(* delimiters, delimiter prefixes, tags, attribute snippets, fillers).     *)
(* Exhaustive strings over characters cannot reach a complete tag for long *)
(* delimiters; atom sequences can.                                         *)
(***************************************************************************)
EXTENDS GenBase

CONSTANTS Atoms,      \* sequence of atoms, each a sequence of characters
          N           \* maximal number of atoms

VARIABLE a            \* sequence of atom indices

Init == a = <<>>
Next == Len(a) < N /\ \E i \in DOMAIN Atoms : a' = Append(a, i)
Doc == ConcatAll([k \in 1..Len(a) |-> Atoms[a[k]]])
EmitAll == Len(a) > 0 => Emit(ToString(a), Doc)
=============================================================================
