------------------------------- MODULE Trace -------------------------------
(***************************************************************************)
(* Trace validation: behaviours recorded from the real code (harness/chk)  *)
(* are checked against the specification.  Every recorded behaviour is an  *)
(* initial state; every recorded event must be consumed by the action of   *)
(* Chiritori.tla it belongs to, with the logged value bound to the primed  *)
(* variable.  The property predicates of Props.tla are the invariants.     *)
(***************************************************************************)
EXTENDS Conform, Json, IOUtils

Beh == ndJsonDeserialize(IOEnv.TRACE)

VARIABLES b, l          \* behaviour index, index of the next event

tvars == <<vars, b, l>>

NormCfg(c) == [ds |-> c.ds, de |-> c.de, tl |-> c.tl, rm |-> c.rm, off |-> c.off, now |-> c.now,
               targets |-> SeqToSet(c.targets)]

Ev  == Beh[b].events
Cur == Ev[l]
More == l <= Len(Ev)

TraceInit ==
  /\ b \in 1..Len(Beh)
  /\ l = 1
  /\ Init(Beh[b].src, NormCfg(Beh[b].cfg))

Hook(stage) == Cur.ev = "Hook" /\ Cur.stage = stage

Consume ==
  \/ Cur.ev = "Edit"      /\ Edit(Cur.src)
  \/ Cur.ev = "Config"    /\ Configure(NormCfg(Cur.cfg))
  \/ Cur.ev = "Call"      /\ Call(Cur.op)
  \/ Hook("Tokens")       /\ StageTokens(Cur.rows)
  \/ Hook("Tree")         /\ StageTree(Cur.rows)
  \/ Hook("Markers")      /\ StageMarkers(Cur.rows, Cur.text)
  \/ Hook("MarkersAll")   /\ StageMarkersAll(Cur.rows)
  \/ Hook("Seam")         /\ StageFmt("Seam", Cur.rows)
  \/ Hook("Block")        /\ StageFmt("Block", Cur.rows)
  \/ Hook("FinalRanges")  /\ StageFmt("FinalRanges", Cur.rows)
  \/ Cur.ev = "Return"    /\ op \in CleanOps /\ Return(Cur.out)
  \/ Cur.ev = "Return"    /\ op \in ListOps  /\ ReturnList(Cur.out, Cur.items, Cur)
  \/ Cur.ev = "Return"    /\ op \in ListOps  /\ ReturnListDirect(Cur.out, Cur.items, Cur)
  \/ Cur.ev = "Panic"     /\ Panic(Cur.at)
  \/ Cur.ev = "ErrReturn" /\ Fail(Cur.err)
  \/ Cur.ev = "Tokenize"  /\ ApiTokenize(Cur.toks, Cur.vals)
  \/ Cur.ev = "ParseTags" /\ ApiParseTags(Cur.toks, Cur.tags)
  \/ Cur.ev = "Tree"      /\ ApiTree(Cur.toks, Cur.tree)
  \/ Cur.ev = "EvalTime"  /\ ApiEval("eval_time", Cur)
  \/ Cur.ev = "EvalMarker" /\ ApiEval("eval_marker", Cur)
  \/ Cur.ev = "Cli"       /\ CliRun(Cur)

TraceNext ==
  \/ More /\ Consume /\ l' = l + 1 /\ b' = b
  \/ ~More /\ UNCHANGED tvars            \* the behaviour is accepted: every event was consumed

TraceSpec == TraceInit /\ [][TraceNext]_tvars

\* identification of the behaviour in error traces
BehId == Beh[b].id

\* conformance to Layer I: always TRUE, prints DRIFT records
Conf_All == ConfAll(BehId)

Inv_C01 == C01
Inv_C02 == C02
Inv_C03 == C03
Inv_C04 == C04 /\ C04_Cli
Inv_C05 == C05
Inv_C06 == C06
Inv_C07 == C07
Inv_C08 == C08
Inv_C09 == C09
Inv_C10 == C10
Inv_C11 == C11
Inv_C12 == C12
Inv_C13 == C13
Inv_C14 == C14
Inv_C15 == C15
Inv_C16 == C16 /\ C16_CR
Inv_C17 == C17
Inv_C18 == C18 /\ C18_Cli
Inv_C19 == /\ C19_Idem
           /\ \/ C19_Comp
              \/ Listed("C19", "C19-blank-wrappers", KF_C19_BlankWrappers(Commits[1].src, cfg), BehId)
              \/ Listed("C19", "C19-blank-wrapper-lead", KF_C19_BlankWrapperLead(Commits[1].src, cfg), BehId)
Inv_C20 == C20

\* vacuity guard: prints an APPLIES record when the antecedent of the property holds in a state; always TRUE
Says(prop, a) == a => PrintT(<<"APPLIES", prop, BehId>>)
Applies_C01 == Says("C01", App_C01)
Applies_C02 == Says("C02", App_C02)
Applies_C03 == Says("C03", App_C03)
Applies_C04 == Says("C04", App_C04)
Applies_C05 == Says("C05", App_C05)
Applies_C06 == Says("C06", App_C06)
Applies_C07 == Says("C07", App_C07)
Applies_C08 == Says("C08", App_C08)
Applies_C09 == Says("C09", App_C09)
Applies_C10 == Says("C10", App_C10)
Applies_C11 == Says("C11", App_C11)
Applies_C12 == Says("C12", App_C12)
Applies_C13 == Says("C13", App_C13)
Applies_C14 == Says("C14", App_C14)
Applies_C15 == Says("C15", App_C15)
Applies_C16 == Says("C16", App_C16)
Applies_C17 == Says("C17", App_C17)
Applies_C18 == Says("C18", App_C18)
Applies_C19 == Says("C19", App_C19)
Applies_C20 == Says("C20", App_C20)
=============================================================================
