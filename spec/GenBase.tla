------------------------------ MODULE GenBase ------------------------------
(***************************************************************************)
(* Shared by the behaviour generators (spec -> impl direction).  A         *)
(* generator is a small specification whose reachable states are inputs of *)
(* the system - documents, configurations, operation sequences; TLC        *)
(* enumerates (or -simulates) them and prints one JSON behaviour per       *)
(* emitting state, which harness/chk replays through the real code.        *)
(***************************************************************************)
EXTENDS Text, Json, TLC

CONSTANTS
  DS, DE,        \* delimiters (sequences of characters)
  TL, RM,        \* tag names
  OFF,           \* offset string
  NOW,           \* <<day number, second of day>> (UTC)
  TARGETS,       \* sequence of target names
  OPS,           \* operations to run on every generated document: sequence of records [op |-> ...]
  GEN            \* generator label (a string)

Cfg == [ds |-> DS, de |-> DE, tl |-> TL, rm |-> RM, off |-> OFF, now |-> NOW, targets |-> TARGETS]

Behaviour(id, doc) == [id |-> id, gen |-> GEN, src |-> doc, cfg |-> Cfg, ops |-> OPS]

\* prints the behaviour and is TRUE: use as CONSTRAINT / INVARIANT conjunct
Emit(id, doc) == PrintT(<<"BEH", ToJson(Behaviour(id, doc))>>)
EmitRec(r) == PrintT(<<"BEH", ToJson(r)>>)
=============================================================================
