----------------------------- MODULE Chiritori -----------------------------
(***************************************************************************)
(* Layer R: the state of chiritori and its transitions.                    *)
(*                                                                         *)
(* The managed source text, the configuration, and the results of the      *)
(* stages of the pipeline                                                  *)
(*   tokenize -> build tree -> evaluate + mark -> remove -> tidy           *)
(* for the operations clean / commit (clean and write back) / list /       *)
(* list_all, the stand-alone API operations, and the command line.         *)
(*                                                                         *)
(* The ACTIONS below fix the shape of a behaviour: which stage may follow  *)
(* which, and which variable a stage result is bound to.  Every action     *)
(* takes the stage result as a parameter:                                  *)
(*   - in trace validation (Trace.tla) the parameter is the value that the *)
(*     real code produced (hook event / return value);                     *)
(*   - in model checking (MC_*.tla) it is the value of the reference       *)
(*     semantics (Tags, Grammar, Tree, Eval, Extent, Layout, Listing).     *)
(* What a stage result must look like is stated separately, one predicate  *)
(* per property C01..C20 (Props.tla), so that TLC reports which property   *)
(* an observed behaviour breaks.                                           *)
(***************************************************************************)
EXTENDS Text

VARIABLES
  file,   \* Seq(Char): the source text under management; persists across operations
  cfg,    \* [ds, de, tl, rm, off, now, targets]: delimiters, tag names, offset string, clock, target set
  pc,     \* control state, see PcRest / PcRun
  op,     \* name of the operation in progress / last finished
  toks,   \* token rows <<kind, start, end, byte_start, byte_end, value_bytes>> of the last tokenization
  vals,   \* token texts (only the stand-alone tokenize operation reports them)
  tags,   \* parse results of tag tokens (stand-alone parse_tags operation)
  tree,   \* pre-order rows <<is_element, depth, first_token_byte_start, closing_token_byte_start>>
  marks,  \* marker rows <<start, end, pair, [ready]>> in bytes
  removed,\* text after deleting the markers, before tidying
  fmt,    \* formatter-internal events (seam ranges, block ranges, final ranges)
  out,    \* last returned text
  items,  \* last returned list items
  res,    \* last miscellaneous result (evaluator call, command-line run, panic location)
  hist    \* finished operations: [op, src, cfg, out, items, marks, removed]

vars == <<file, cfg, pc, op, toks, vals, tags, tree, marks, removed, fmt, out, items, res, hist>>

PcRest == {"idle", "returned", "tok_done", "tags_done", "tree_done", "eval_done", "cli_done", "crashed", "failed"}
PcRun  == {"called", "tokenized", "treed", "marked"}

CleanOps == {"clean", "commit"}
ListOps  == {"list", "list_json", "list_all", "list_all_json"}

NoRec == [none |-> TRUE]

Init(doc, c) ==
  /\ file = doc /\ cfg = c /\ pc = "idle" /\ op = "none"
  /\ toks = <<>> /\ vals = <<>> /\ tags = <<>> /\ tree = <<>> /\ marks = <<>> /\ removed = <<>>
  /\ fmt = <<>> /\ out = <<>> /\ items = <<>> /\ res = NoRec /\ hist = <<>>

Stage == <<toks, vals, tags, tree, marks, removed, fmt, out, items, res>>

(***************************************************************************)
(* Environment actions                                                     *)
(***************************************************************************)
Edit(doc) ==                      \* somebody edits the managed file
  /\ pc \in PcRest
  /\ file' = doc /\ pc' = "idle" /\ op' = "edit"
  /\ UNCHANGED <<cfg, Stage, hist>>

LaterOrEqual(t2, t1) == t2[1] > t1[1] \/ (t2[1] = t1[1] /\ t2[2] >= t1[2])

Configure(c) ==                   \* the configuration changes (clock advances, targets added, respelling ...)
  /\ pc \in PcRest
  /\ cfg' = c /\ pc' = "idle" /\ op' = "config"
  /\ UNCHANGED <<file, Stage, hist>>

\* classification of a configuration change, used by the history properties
ClockOnlyAdvances(c1, c2) == LaterOrEqual(c2.now, c1.now)
TargetsOnlyGrow(c1, c2)   == c1.targets \subseteq c2.targets
SameSpelling(c1, c2) == c1.ds = c2.ds /\ c1.de = c2.de /\ c1.tl = c2.tl /\ c1.rm = c2.rm /\ c1.off = c2.off

(***************************************************************************)
(* Pipeline actions                                                        *)
(***************************************************************************)
Call(o) ==
  /\ pc \in PcRest /\ o \in CleanOps \cup ListOps
  /\ pc' = "called" /\ op' = o
  /\ toks' = <<>> /\ vals' = <<>> /\ tree' = <<>> /\ marks' = <<>> /\ removed' = <<>> /\ fmt' = <<>>
  /\ UNCHANGED <<file, cfg, tags, out, items, res, hist>>

StageTokens(tk) ==
  /\ pc = "called"
  /\ toks' = tk /\ pc' = "tokenized"
  /\ UNCHANGED <<file, cfg, op, vals, tags, tree, marks, removed, fmt, out, items, res, hist>>

StageTree(tr) ==
  /\ pc = "tokenized"
  /\ tree' = tr /\ pc' = "treed"
  /\ UNCHANGED <<file, cfg, op, toks, vals, tags, marks, removed, fmt, out, items, res, hist>>

StageMarkers(mk, rem) ==          \* clean: the markers and the text with the markers deleted
  /\ pc = "treed" /\ op \in CleanOps
  /\ marks' = mk /\ removed' = rem /\ pc' = "marked"
  /\ UNCHANGED <<file, cfg, op, toks, vals, tags, tree, fmt, out, items, res, hist>>

StageMarkersAll(mk) ==            \* list / list_all: the markers with their readiness
  /\ pc = "treed" /\ op \in ListOps
  /\ marks' = mk /\ pc' = "marked"
  /\ UNCHANGED <<file, cfg, op, toks, vals, tags, tree, removed, fmt, out, items, res, hist>>

StageFmt(kind, rows) ==           \* tidying internals (observed only when asked for)
  /\ pc = "marked" /\ op \in CleanOps
  /\ fmt' = Append(fmt, <<kind, rows>>)
  /\ UNCHANGED <<file, cfg, pc, op, toks, vals, tags, tree, marks, removed, out, items, res, hist>>

HistEntry(o, text, its) ==
  [op |-> o, src |-> file, cfg |-> cfg, out |-> text, items |-> its, marks |-> marks, removed |-> removed]

Return(text) ==                   \* clean returns; commit also writes the result back
  /\ pc = "marked" /\ op \in CleanOps
  /\ out' = text /\ pc' = "returned"
  /\ file' = IF op = "commit" THEN text ELSE file
  /\ hist' = Append(hist, HistEntry(op, text, <<>>))
  /\ UNCHANGED <<cfg, op, toks, vals, tags, tree, marks, removed, fmt, items, res>>

ReturnList(text, its, meta) ==    \* list / list_all return; meta: json_ok / split_ok
  /\ pc = "marked" /\ op \in ListOps
  /\ out' = text /\ items' = its /\ res' = meta /\ pc' = "returned"
  /\ hist' = Append(hist, HistEntry(op, text, its))
  /\ UNCHANGED <<file, cfg, op, toks, vals, tags, tree, marks, removed, fmt>>

ReturnListDirect(text, its, meta) ==   \* named deviation: a listing call answered without running the stages
  /\ pc = "called" /\ op \in ListOps   \* (an early return in front of the pipeline); nothing is observed between
  /\ out' = text /\ items' = its /\ res' = meta /\ pc' = "returned"   \* call and return, the stage variables stay
  /\ hist' = Append(hist, HistEntry(op, text, its))                   \* empty, and every result predicate
  /\ UNCHANGED <<file, cfg, op, toks, vals, tags, tree, marks, removed, fmt>>   \* (C15 - C17, C01) applies as usual

Panic(at) ==                      \* the real code panicked; no reference behaviour contains this step
  /\ pc' = "crashed" /\ res' = [at |-> at]
  /\ UNCHANGED <<file, cfg, op, toks, vals, tags, tree, marks, removed, fmt, out, items, hist>>

Fail(what) ==                     \* an error return (JSON serialisation) - not a panic, but not a result either
  /\ pc' = "failed" /\ res' = [what |-> what]
  /\ UNCHANGED <<file, cfg, op, toks, vals, tags, tree, marks, removed, fmt, out, items, hist>>

(***************************************************************************)
(* Stand-alone API operations                                              *)
(***************************************************************************)
ApiTokenize(tk, vl) ==
  /\ pc \in PcRest
  /\ toks' = tk /\ vals' = vl /\ pc' = "tok_done" /\ op' = "tokenize"
  /\ UNCHANGED <<file, cfg, tags, tree, marks, removed, fmt, out, items, res, hist>>

ApiParseTags(tk, tg) ==
  /\ pc \in PcRest
  /\ toks' = tk /\ vals' = <<>> /\ tags' = tg /\ pc' = "tags_done" /\ op' = "parse_tags"
  /\ UNCHANGED <<file, cfg, tree, marks, removed, fmt, out, items, res, hist>>

ApiTree(tk, tr) ==
  /\ pc \in PcRest
  /\ toks' = tk /\ vals' = <<>> /\ tree' = tr /\ pc' = "tree_done" /\ op' = "tree"
  /\ UNCHANGED <<file, cfg, tags, marks, removed, fmt, out, items, res, hist>>

ApiEval(kind, r) ==               \* direct call of an evaluator: r = [to / name, has, hv, ready]
  /\ pc \in PcRest
  /\ res' = r /\ pc' = "eval_done" /\ op' = kind
  /\ UNCHANGED <<file, cfg, toks, vals, tags, tree, marks, removed, fmt, out, items, hist>>

(***************************************************************************)
(* The command line: one process run.  r records options, environment and  *)
(* everything the process left behind.                                     *)
(***************************************************************************)
CliRun(r) ==
  /\ pc \in PcRest
  /\ res' = r /\ pc' = "cli_done" /\ op' = "cli"
  /\ file' = IF r.output = "same" /\ r.input = "file" /\ r.has_infile THEN r.infile_after ELSE file
  /\ hist' = Append(hist, [op |-> "cli", src |-> file, cfg |-> cfg, out |-> <<>>, items |-> <<>>,
                            marks |-> <<>>, removed |-> <<>>, cli |-> r])
  /\ UNCHANGED <<cfg, toks, vals, tags, tree, marks, removed, fmt, out, items>>
=============================================================================
