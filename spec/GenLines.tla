------------------------------ MODULE GenLines ------------------------------
(***************************************************************************)
(* G_block / G_unwrap: line-level document builder.  A document is built   *)
(* top to bottom from code lines (pairwise distinct text), empty lines,    *)
(* whitespace-only lines, opening-tag lines and closing-tag lines, with a  *)
(* stack of open elements.  Element kinds: status R (ready removal-marker) *)
(* P (pending) S (skip) U (unregistered name) T (expired time-limited)     *)
(* F (future time-limited), each with the default or the unwrap-block      *)
(* strategy.  Complete documents (stack empty) are emitted with and        *)
(* without a final line break.                                             *)
(***************************************************************************)
EXTENDS GenBase, FiniteSets

CONSTANTS
  L,          \* maximal number of lines
  D,          \* maximal nesting depth
  E,          \* maximal number of elements
  Kinds,      \* set of <<status, unwrap>> allowed, status \in {"R","P","S","SP","SF","U","T","F"} (S: skip on a ready marker, SP / SF: skip on a pending marker / time limit, NV / NN: marker with a valueless / without a name, UX / UP: near-miss tag names, XR / XT: the other evaluator's attribute)
  Unit,       \* indentation unit (sequence of characters)
  Base,       \* indentation (in units) of depth 0
  FreeInd,    \* set of indentations (in units) a code line / tag line may choose in addition to Base + depth
  FreeCode,   \* FALSE: code lines stand at Base + depth, only lines with tags choose from FreeInd
  FreeTags,   \* FALSE: only code lines choose from FreeInd, lines with tags stand at Base + depth
  WsLens,     \* set of lengths of whitespace-only lines (in characters, taken cyclically from Unit); {} = none
  Blank,      \* TRUE: empty lines allowed
  Suffix,     \* text appended to every code line (e.g. a multi-byte character), <<>> for none
  FlagVal,    \* spelling appended to the flag attributes skip / unwrap-block: <<>> (bare) or e.g. ='1' (valued flag)
  EqPad,      \* <<blanks before '=', blanks behind '='>> in name='..' / to='..' (sequences of characters, <<>> for none)
  ExtraAttr,  \* text appended to the attributes of every opening tag, <<>> for none: an attribute that must mean nothing,
              \* e.g. " skipper", " Skip", " xunwrap-block", " names='a'"
  OpenPad,    \* FALSE: only closing tags carry TagPad ("<tag a='b'> ... </tag -->" with a surplus character in front of the end delimiter)
  TagPad,     \* characters between the tag body and the end delimiter (and behind the start delimiter of closing tags stays
              \* none): <<>> or e.g. <<SP>> ("<tag a='b' >"), the README's padded style
  Lead,       \* characters in front of the whole document: <<>>, a byte order mark <<65279>>, or a first line with another
              \* line terminator (e.g. "m" CR LF in front of an LF document: mixed line ends)
  EdgeCh,     \* characters glued to a tag wherever text shares the line with it (behind "c<n>; " in front of an opening tag,
              \* directly behind a closing tag that is followed by text): <<>> or e.g. a multi-byte character
  WideCode,   \* TRUE: code lines consist of the wide blanks U+3000 / U+00A0 only (no blank in the sense of the tool)
  QuoteCh,    \* quote character of attribute values: 39 (') or 34 (")
  FlagsFirst, \* TRUE: the flag attributes come before name / to instead of after them
  TagSep,     \* separator in front of the c='e<n>' attribute of opening tags: <<SP>> or e.g. a line break plus
              \* indentation (tags spanning two lines)
  EOL,        \* line terminator, <<NL>> or <<CR, NL>> (CRLF documents: the code knows only NL, CR is an ordinary character)
  Preamble,   \* number of filler code lines "p<i>;" in front of the generated document (pushes line numbers up)
  InlineTags, \* TRUE: an opening tag may follow code on its line ("c1; <tag>") and code may follow a closing tag
              \*       ("</tag>d  1;"): elements whose tags share lines with code
  Crossing,   \* TRUE: the element below the innermost open one may be closed first ("<a> <b> </a> </b>": b's opening tag
              \*       becomes plain text, its closing tag a stray one)
  TailKinds,  \* kinds of the elements lying wholly on one line (tail / lead elements and tag-line neighbours)
  TailElems,  \* TRUE: lines "c<n>; <tag>t<n></tag>" and "<tag>t<n></tag> c<n>;" may be added: an element wholly on one
              \*       line, behind or in front of code
  PairKind,   \* kind of the two elements of a pair line
  PairLines,  \* TRUE: lines holding two touching ready inline elements "<rm..>i</rm><rm..>j</rm>" may be added
  MaxCode,    \* maximal number of code lines
  EmptyDefault, \* TRUE: default-strategy elements are closed right after they are opened (two-line blocks)
  MbCode,     \* TRUE: code lines consist of multi-byte characters only (pairwise distinct per line)
  CodeA, CodeB, \* text between 'c' and the line number / between the number and ';' (interior blanks), <<>> for none
  PastTo, FutureTo, \* `to` values for T / F
  Tos,        \* `to` values for the kinds "T1", "T2", ... (histories): sequence
  Names       \* marker names for the kinds "M1", "M2", ... (histories): sequence

VARIABLES lines,   \* sequence of [k |-> "code"|"blank"|"ws"|"open"|"close", ind, n, kind]
          stack,   \* open element kinds, innermost last: <<kind, ind>>
          nel

gvars == <<lines, stack, nel>>

Init == lines = <<>> /\ stack = <<>> /\ nel = 0

Inds == {Base + Len(stack)} \cup FreeInd
TInds == IF FreeTags THEN Inds ELSE {Base + Len(stack)}
CInds == IF FreeCode THEN Inds ELSE {Base + Len(stack)}

AddCode  == \E i \in CInds : lines' = Append(lines, [k |-> "code", ind |-> i, n |-> Len(lines) + 1, kind |-> <<>>])
                           /\ UNCHANGED <<stack, nel>>
AddPair  == PairLines /\ \E i \in TInds : lines' = Append(lines, [k |-> "pair", ind |-> i, n |-> Len(lines) + 1, kind |-> <<>>])
                           /\ UNCHANGED <<stack, nel>>
AddBlank == Blank /\ lines' = Append(lines, [k |-> "blank", ind |-> 0, n |-> 0, kind |-> <<>>]) /\ UNCHANGED <<stack, nel>>
AddWs    == \E w \in WsLens : lines' = Append(lines, [k |-> "ws", ind |-> w, n |-> 0, kind |-> <<>>]) /\ UNCHANGED <<stack, nel>>
AddTail  == /\ TailElems /\ nel < E
            /\ \E kd \in TailKinds, i \in TInds, shape \in {"tail", "lead"} :
                 lines' = Append(lines, [k |-> shape, ind |-> i, n |-> nel + 1, kind |-> kd])
            /\ nel' = nel + 1 /\ UNCHANGED stack
\* an opening tag with an element wholly behind it on the same line / a closing tag with one in front of it
OpenWithTail == /\ TailElems /\ Len(stack) < D /\ nel + 1 < E
                /\ \E kd \in Kinds, kx \in TailKinds, i \in TInds :
                     /\ lines' = Append(lines, [k |-> "opent", ind |-> i, n |-> nel + 1, kind |-> kd, kind2 |-> kx])
                     /\ stack' = Append(stack, <<kd, i>>)
                /\ nel' = nel + 2
CloseWithLead == /\ TailElems /\ stack # <<>> /\ nel < E
                 /\ \E kx \in TailKinds :
                      lines' = Append(lines, [k |-> "closel", ind |-> stack[Len(stack)][2], n |-> nel + 1,
                                              kind |-> stack[Len(stack)][1], kind2 |-> kx])
                 /\ stack' = SubSeq(stack, 1, Len(stack) - 1)
                 /\ nel' = nel + 1
Open     == /\ Len(stack) < D /\ nel < E
            /\ \E kd \in Kinds, i \in TInds :
                 /\ lines' = Append(lines, [k |-> "open", ind |-> i, n |-> nel + 1, kind |-> kd])
                 /\ stack' = Append(stack, <<kd, i>>)
            /\ nel' = nel + 1
OpenInl  == /\ InlineTags /\ Len(stack) < D /\ nel < E
            /\ \E kd \in Kinds, i \in TInds :
                 /\ lines' = Append(lines, [k |-> "copen", ind |-> i, n |-> nel + 1, kind |-> kd])
                 /\ stack' = Append(stack, <<kd, i>>)
            /\ nel' = nel + 1
CloseInl == /\ InlineTags /\ stack # <<>>
            /\ lines' = Append(lines, [k |-> "cclose", ind |-> stack[Len(stack)][2], n |-> Len(lines) + 1, kind |-> stack[Len(stack)][1]])
            /\ stack' = SubSeq(stack, 1, Len(stack) - 1)
            /\ UNCHANGED nel
Close    == /\ stack # <<>>
            /\ lines' = Append(lines, [k |-> "close", ind |-> stack[Len(stack)][2], n |-> 0, kind |-> stack[Len(stack)][1]])
            /\ stack' = SubSeq(stack, 1, Len(stack) - 1)
            /\ UNCHANGED nel

CrossClose == /\ Crossing /\ Len(stack) >= 2
              /\ lines' = Append(lines, [k |-> "close", ind |-> stack[Len(stack) - 1][2], n |-> 0, kind |-> stack[Len(stack) - 1][1]])
              /\ stack' = SubSeq(stack, 1, Len(stack) - 2) \o <<stack[Len(stack)]>>
              /\ UNCHANGED nel

CodeCount == Cardinality({i \in 1..Len(lines) : lines[i].k = "code"})
InDefault == stack # <<>> /\ ~stack[Len(stack)][1][2]

Next == /\ Len(lines) < L
        /\ IF EmptyDefault /\ InDefault THEN Close
           ELSE (CodeCount < MaxCode /\ AddCode) \/ AddPair \/ AddBlank \/ AddWs \/ Open \/ Close \/ OpenInl \/ CloseInl \/ AddTail \/ OpenWithTail \/ CloseWithLead \/ CrossClose

\* a document can only be completed if the open elements can still be closed
Feasible == Len(lines) + Len(stack) <= L

\* narrower spaces for the larger families: the document begins with the opening tag of an unwrap-block
StartsUnwrap == lines = <<>> \/ (lines[1].k \in {"open", "opent"} /\ lines[1].kind[2])
FeasibleU == Feasible /\ StartsUnwrap

Q == <<QuoteCh>>
Str(s) == s
TKinds == {"T1", "T2", "T3", "T4"}
MKinds == {"M1", "M2", "M3", "M4"}
KIdx(k) == IF k \in {"T1", "M1"} THEN 1 ELSE IF k \in {"T2", "M2"} THEN 2 ELSE IF k \in {"T3", "M3"} THEN 3 ELSE 4
TagName(kd) == IF kd[1] \in {"R", "P", "S", "SP", "NV", "NN", "XR", "RB", "PB"} \cup MKinds THEN RM
               ELSE IF kd[1] \in {"T", "F", "SF", "XT", "TB"} \cup TKinds THEN TL
               ELSE IF kd[1] = "US" THEN <<120>> \o RM            \* a letter in front of the registered name: the registered name is a proper suffix
               ELSE IF kd[1] = "UST" THEN <<120>> \o TL
               ELSE IF kd[1] = "UX" THEN RM \o <<120>>            \* the registered name with a letter appended
               ELSE IF kd[1] = "UP" THEN SubSeq(RM, 1, Len(RM) - 1) \o <<45>>   \* its proper prefix plus a dash
               ELSE <<120, 120>>   \* xx
EqS == EqPad[1] \o <<61>> \o EqPad[2]
FlagAttrs(kd) ==
     (IF kd[1] \in {"S", "SP", "SF"} THEN <<32, 115, 107, 105, 112>> \o FlagVal ELSE <<>>)
  \o (IF kd[2] THEN <<32, 117, 110, 119, 114, 97, 112, 45, 98, 108, 111, 99, 107>> \o FlagVal ELSE <<>>)
CondAttr(kd) ==
         IF kd[1] = "NV" THEN <<32, 110, 97, 109, 101>>                                                        \* bare name
         ELSE IF kd[1] = "NN" THEN <<>>                                                                        \* no name at all
         ELSE IF kd[1] = "TB" THEN <<32, 116, 111>> \o EqS \o Q \o <<50, 48, 48, 48, 47, 48, 49, 47, 48, 49, 32, 48, 48, 58, 48, 48, 58, 48, 48>> \o Q   \* to='2000/01/01 00:00:00': never ready
         ELSE IF kd[1] = "RB" THEN <<32, 110, 97, 109, 101>> \o EqS \o Q \o <<97, 32>> \o Q                      \* name='a ' (ready iff 'a ' is a target)
         ELSE IF kd[1] = "PB" THEN <<32, 110, 97, 109, 101>> \o EqS \o Q \o <<32, 97>> \o Q                      \* name=' a'
         ELSE IF kd[1] = "XR" THEN <<32, 116, 111>> \o EqS \o Q \o PastTo \o Q                                       \* marker tag, `to` only
         ELSE IF kd[1] \in {"R", "S", "U", "UX", "UP", "XT", "US", "UST"} THEN <<32, 110, 97, 109, 101>> \o EqS \o Q \o <<97>> \o Q                 \* name='a'
         ELSE IF kd[1] \in {"P", "SP"} THEN <<32, 110, 97, 109, 101>> \o EqS \o Q \o <<98>> \o Q             \* name='b'
         ELSE IF kd[1] = "T" THEN <<32, 116, 111>> \o EqS \o Q \o PastTo \o Q
         ELSE IF kd[1] \in TKinds THEN <<32, 116, 111>> \o EqS \o Q \o Tos[KIdx(kd[1])] \o Q
         ELSE IF kd[1] \in MKinds THEN <<32, 110, 97, 109, 101>> \o EqS \o Q \o Names[KIdx(kd[1])] \o Q
         ELSE <<32, 116, 111>> \o EqS \o Q \o FutureTo \o Q
OpenTag(kd, n) ==
  DS \o TagName(kd)
     \o (IF FlagsFirst THEN FlagAttrs(kd) \o CondAttr(kd) ELSE CondAttr(kd) \o FlagAttrs(kd))
     \o ExtraAttr
     \o TagSep \o <<99, 61>> \o Q \o <<101>> \o Digits(n) \o Q                                                 \* c='e<n>'
     \o (IF OpenPad THEN TagPad ELSE <<>>) \o DE
CloseTag(kd) == DS \o <<47>> \o TagName(kd) \o TagPad \o DE

\* the text of a piece of code sharing its line with a tag: "c<n>;" or, under MbCode, multi-byte characters only
CodeBit(ch, n) == IF MbCode THEN <<12354 + n, 233, 128512 + n>> ELSE <<ch>> \o Digits(n) \o <<59>>

RECURSIVE Indent(_)
Indent(k) == IF k <= 0 THEN <<>> ELSE Unit \o Indent(k - 1)

LineTextOf(l) ==
  IF l.k = "code" /\ WideCode THEN Indent(l.ind) \o RepeatCh(12288, l.n) \o <<160>>                          \* n wide blanks + NBSP
  ELSE IF l.k = "code" THEN Indent(l.ind) \o (IF MbCode THEN <<12354 + l.n, 233, 128512 + l.n>>                  \* 3-, 2-, 4-byte
                                          ELSE <<99>> \o CodeA \o Digits(l.n) \o CodeB \o <<59>>) \o Suffix  \* c<n>;
  ELSE IF l.k = "pair" THEN Indent(l.ind) \o OpenTag(PairKind, 90 + l.n) \o <<105>> \o Digits(l.n) \o CloseTag(PairKind)
                                          \o OpenTag(PairKind, 190 + l.n) \o <<106>> \o Digits(l.n) \o CloseTag(PairKind)
  ELSE IF l.k = "tail" THEN Indent(l.ind) \o CodeBit(99, l.n) \o <<32>> \o EdgeCh \o OpenTag(l.kind, l.n) \o <<116>> \o Digits(l.n) \o CloseTag(l.kind)   \* c<n>; <tag>t<n></tag>
  ELSE IF l.k = "opent" THEN Indent(l.ind) \o OpenTag(l.kind, l.n) \o <<32>> \o OpenTag(l.kind2, l.n + 1) \o <<116>> \o Digits(l.n + 1) \o CloseTag(l.kind2)
  ELSE IF l.k = "closel" THEN Indent(l.ind) \o OpenTag(l.kind2, l.n) \o <<116>> \o Digits(l.n) \o CloseTag(l.kind2) \o <<32>> \o CloseTag(l.kind)
  ELSE IF l.k = "lead" THEN Indent(l.ind) \o OpenTag(l.kind, l.n) \o <<116>> \o Digits(l.n) \o CloseTag(l.kind) \o EdgeCh \o <<32>> \o CodeBit(99, l.n)   \* <tag>t<n></tag> c<n>;
  ELSE IF l.k = "copen" THEN Indent(l.ind) \o CodeBit(111, l.n) \o (IF MbCode THEN <<32>> ELSE <<32, 123, 32>>) \o EdgeCh \o OpenTag(l.kind, l.n)          \* o<n>; { <tag>
  ELSE IF l.k = "cclose" THEN Indent(l.ind) \o CloseTag(l.kind) \o EdgeCh \o (IF MbCode THEN <<32>> \o CodeBit(100, l.n) ELSE <<100, 32, 32, 32, 61, 32>> \o Digits(l.n) \o <<59>>)      \* </tag>d   = <n>;
  ELSE IF l.k = "blank" THEN <<>>
  ELSE IF l.k = "ws" THEN [i \in 1..l.ind |-> Unit[((i - 1) % Len(Unit)) + 1]]        \* the characters of the unit, cyclically
  ELSE IF l.k = "open" THEN Indent(l.ind) \o OpenTag(l.kind, l.n)
  ELSE Indent(l.ind) \o CloseTag(l.kind)

RECURSIVE JoinLines(_, _)
JoinLines(ls, i) == IF i > Len(ls) THEN <<>>
                    ELSE LineTextOf(ls[i]) \o (IF i < Len(ls) THEN EOL ELSE <<>>) \o JoinLines(ls, i + 1)

RECURSIVE Fillers(_)
Fillers(i) == IF i > Preamble THEN <<>> ELSE <<112>> \o Digits(i) \o <<59>> \o EOL \o Fillers(i + 1)            \* p<i>;

GenDoc == Lead \o Fillers(1) \o JoinLines(lines, 1)
Shape == [i \in 1..Len(lines) |-> <<lines[i].k, lines[i].ind>> \o lines[i].kind]

Complete == stack = <<>> /\ lines # <<>> /\ (nel >= 1 \/ \E i \in 1..Len(lines) : lines[i].k = "pair")

EmitAll == Complete => /\ Emit("", GenDoc)
                       /\ Emit("", GenDoc \o EOL)
=============================================================================
