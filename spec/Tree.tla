-------------------------------- MODULE Tree --------------------------------
(***************************************************************************)
(* Reference pairing (C10): tags pair by name with stack discipline.       *)
(*                                                                         *)
(* tg: sequence over the tokens of the document, tg[i] = [k, cls, name];   *)
(* k = 1 for tag tokens, cls/name the reference parse of the tag.  A tag   *)
(* named /n closes the innermost open element named n: the elements opened *)
(* after it and still unclosed are dropped from the stack (they are text). *)
(* A closing tag without a matching open element is text and is not        *)
(* pushed; an opening tag that is never closed stays on the stack to the   *)
(* end (text).  Result: set of <<open token index, close token index>>.    *)
(***************************************************************************)
EXTENDS Grammar, FiniteSets

IsCloserName(n) == Len(n) >= 1 /\ n[1] = SLASH
CloseTarget(n)  == Tail(n)

\* names for which the property text does not say what "closing tag /name" means
OddName(n) == Len(n) >= 2 /\ n[1] = SLASH /\ n[2] = SLASH

\* index of the innermost open element named n, 0 if none (top of the stack = end of the sequence)
RECURSIVE TopMatch(_, _, _)
TopMatch(stack, p, n) == IF p = 0 THEN 0 ELSE IF stack[p][1] = n THEN p ELSE TopMatch(stack, p - 1, n)

RECURSIVE PairScan(_, _, _, _)
PairScan(tg, i, stack, acc) ==
  IF i > Len(tg) THEN acc
  ELSE LET t == tg[i] IN
       IF t.k = 0 \/ t.cls # "ok" THEN PairScan(tg, i + 1, stack, acc)
       ELSE IF IsCloserName(t.name)
            THEN LET j == TopMatch(stack, Len(stack), CloseTarget(t.name)) IN
                 IF j = 0 THEN PairScan(tg, i + 1, stack, acc)
                 ELSE PairScan(tg, i + 1, SubSeq(stack, 1, j - 1), acc \cup {<<stack[j][2], i>>})
            ELSE PairScan(tg, i + 1, Append(stack, <<t.name, i>>), acc)

StackPairs(tg) == PairScan(tg, 1, <<>>, {})

\* a second, independent formulation used as a sanity theorem in MC_Ref: (o, c) is a pair iff c is the
\* first closer of o's name after o such that o is still open, decided by simulation from o alone
Depth(pairs, i) == Cardinality({p \in pairs : p[1] < i /\ i < p[2]})
=============================================================================
