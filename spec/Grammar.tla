------------------------------ MODULE Grammar ------------------------------
(***************************************************************************)
(* Reference tag grammar (C09), written from the property and the README:  *)
(*                                                                         *)
(*   body ::= SP* name (sep attr)* sep?                                    *)
(*   sep  ::= (SP | NL)+                                                   *)
(*   attr ::= word | word SP* '=' SP* ( '"' [^"]* '"' | "'" [^']* "'" )    *)
(*   word, name ::= maximal run of characters other than SP NL = " '       *)
(*                                                                         *)
(* RefParse classifies a tag body:                                         *)
(*   "ok"      inside the grammar: name and attributes are determined;     *)
(*   "text"    definitely not a tag (blank body, or the first non-space    *)
(*             character is = " '): the token is inert text;               *)
(*   "lenient" outside the grammar in a way the properties do not pin down *)
(*             (unquoted value, unterminated quote, no separator after a   *)
(*             quoted value, quote inside a word, line break before the    *)
(*             name or before '=', '=' after the element name, body        *)
(*             beginning / ending with a further delimiter occurrence).    *)
(*             Every property that needs the parse of such a tag treats    *)
(*             the document as unconstrained.                              *)
(***************************************************************************)
EXTENDS Text

EQ == 61     \* =
DQ == 34     \* "
SQ == 39     \* '
SLASH == 47

RECURSIVE SkipSet(_, _, _)
SkipSet(b, i, S) == IF i <= Len(b) /\ b[i] \in S THEN SkipSet(b, i + 1, S) ELSE i

RECURSIVE FindCh(_, _, _)
FindCh(b, i, c) == IF i > Len(b) THEN 0 ELSE IF b[i] = c THEN i ELSE FindCh(b, i + 1, c)

RECURSIVE WordEnd(_, _)
WordEnd(b, i) == IF i <= Len(b) /\ b[i] \notin {SP, NL, EQ} THEN WordEnd(b, i + 1) ELSE i

HasQuote(w) == \E k \in 1..Len(w) : w[k] \in {DQ, SQ}

Bare(w)      == [n |-> w, hv |-> FALSE, v |-> <<>>]
Valued(w, x) == [n |-> w, hv |-> TRUE, v |-> x]

LenientParse == [cls |-> "lenient", name |-> <<>>, attrs |-> <<>>]
TextParse    == [cls |-> "text", name |-> <<>>, attrs |-> <<>>]

\* i: position right after a word or a quoted value; acc: name followed by the attributes so far
RECURSIVE ParseRest(_, _, _)
ParseRest(b, i, acc) ==
  LET j == SkipSet(b, i, {SP, NL}) IN
  IF j > Len(b) THEN [cls |-> "ok", pairs |-> acc]
  ELSE IF b[j] = EQ THEN
         IF (\E k \in i..(j - 1) : b[k] = NL) \/ Len(acc) < 2 \/ acc[Len(acc)].hv
         THEN [cls |-> "lenient", pairs |-> acc]
         ELSE LET q == SkipSet(b, j + 1, {SP}) IN
              IF q > Len(b) \/ b[q] \notin {DQ, SQ} THEN [cls |-> "lenient", pairs |-> acc]
              ELSE LET k == FindCh(b, q + 1, b[q]) IN
                   IF k = 0 THEN [cls |-> "lenient", pairs |-> acc]
                   ELSE IF k < Len(b) /\ b[k + 1] \notin {SP, NL} THEN [cls |-> "lenient", pairs |-> acc]
                   ELSE ParseRest(b, k + 1,
                                  [acc EXCEPT ![Len(acc)] = Valued(acc[Len(acc)].n, SubSeq(b, q + 1, k - 1))])
  ELSE IF j = i \/ b[j] \in {DQ, SQ} THEN [cls |-> "lenient", pairs |-> acc]
  ELSE LET e == WordEnd(b, j)
           w == SubSeq(b, j, e - 1)
       IN IF HasQuote(w) THEN [cls |-> "lenient", pairs |-> acc]
          ELSE ParseRest(b, e, Append(acc, Bare(w)))

RefParse(body, ds, de) ==
  IF HasPrefix(body, ds) \/ HasSuffix(body, de) THEN LenientParse
  ELSE LET i == SkipSet(body, 1, {SP}) IN
       IF i > Len(body) THEN TextParse
       ELSE IF body[i] \in {EQ, DQ, SQ} THEN TextParse
       ELSE IF body[i] = NL THEN LenientParse
       ELSE LET e == WordEnd(body, i)
                w == SubSeq(body, i, e - 1)
            IN IF HasQuote(w) THEN LenientParse
               ELSE LET r == ParseRest(body, e, <<Bare(w)>>) IN
                    IF r.cls = "ok"
                    THEN [cls |-> "ok", name |-> w, attrs |-> Tail(r.pairs)]
                    ELSE LenientParse

(***************************************************************************)
(* Rendering of a tag from an abstract syntax tree (used by the G_tag      *)
(* generator and by the round-trip sanity theorem RefParse(Render) = ast). *)
(* ast = [name, attrs], attrs[i] = [n, hv, v, q] with q the quote          *)
(* character; seps[i] the separator before attribute i; eqs[i] =           *)
(* <<spaces before '=', spaces after '='>>; pad = <<left, right>>.         *)
(***************************************************************************)
RECURSIVE RenderAttrs(_, _, _, _)
RenderAttrs(attrs, seps, eqs, i) ==
  IF i > Len(attrs) THEN <<>>
  ELSE LET a == attrs[i]
           val == IF a.hv THEN RepeatCh(SP, eqs[i][1]) \o <<EQ>> \o RepeatCh(SP, eqs[i][2]) \o <<a.q>> \o a.v \o <<a.q>>
                  ELSE <<>>
       IN seps[i] \o a.n \o val \o RenderAttrs(attrs, seps, eqs, i + 1)

RenderBody(ast, seps, eqs, pad, trail) ==
  RepeatCh(SP, pad[1]) \o ast.name \o RenderAttrs(ast.attrs, seps, eqs, 1) \o trail \o RepeatCh(SP, pad[2])

AstOf(p) == [name |-> p.name, attrs |-> [i \in 1..Len(p.attrs) |-> [n |-> p.attrs[i].n, hv |-> p.attrs[i].hv, v |-> p.attrs[i].v]]]
=============================================================================
