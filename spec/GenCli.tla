------------------------------- MODULE GenCli -------------------------------
(***************************************************************************)
(* G_cli (C20): option records of the command line x environment.  Every   *)
(* behaviour runs the library operation for the configuration the options  *)
(* denote and then the real binary; C20 / CliFaithful compares them.       *)
(***************************************************************************)
EXTENDS GenBase

CONSTANTS Docs,        \* sequence of documents
          TargetPool,  \* sequence of target names (split between config file and flags)
          Zones,       \* sequence of TZ values
          Langs,       \* sequence of LANG values ("" = unset)
          Part,       \* "all" | "clean_stdout" | "stdout": the part of the option space to emit
          Currents,    \* subset of {"given", "omit", "garbage"}: how --time-limited-current is passed
          Odds,        \* sequence over {"", "both_lists", "json_clean", "missing_input", "bad_outdir"}: option combinations and
                       \* failures outside every listed property ("" = none)
          ArgForms,    \* sequence over {"eq", "sep"}: option values as --opt=value / as separate arguments
          OmitAll      \* TRUE: all options with defaults are omitted (Docs must use the default spelling)

VARIABLES o, done

Modes == {<<"clean", FALSE>>, <<"list", FALSE>>, <<"list", TRUE>>, <<"list_all", FALSE>>, <<"list_all", TRUE>>}

Half == (Len(TargetPool) + 1) \div 2
FileTargets == SubSeq(TargetPool, 1, Half)

Init == done = FALSE /\ o = <<>>
Next ==
  /\ ~done /\ done' = TRUE
  /\ \E d \in 1..Len(Docs), inp \in {"file", "stdin"}, outp \in {"stdout", "file", "same"},
        m \in Modes, via \in {"flags", "file", "both", "none"}, z \in 1..Len(Zones), lg \in 1..Len(Langs),
        zm \in {0, 540, -480}, cur \in Currents, cnl \in BOOLEAN, af \in 1..Len(ArgForms), od \in 1..Len(Odds) :
       /\ (outp = "same" => inp = "file")
       /\ (Odds[od] = "both_lists" => m[1] = "list")
       /\ (Odds[od] = "json_clean" => (m[1] = "list" /\ m[2]))          \* emitted as mode clean with the JSON flag
       /\ (Odds[od] = "missing_input" => (inp = "file" /\ outp # "same"))
       /\ (Odds[od] = "bad_outdir" => outp = "file")
       /\ (cur # "given" => zm = 0)
       /\ (via \in {"flags", "none"} => cnl)          \* cnl: the target config file ends with a line break
       \* without the final line break a last line that is the empty name cannot be written down
       /\ (~cnl => (FileTargets # <<>> /\ FileTargets[Len(FileTargets)] # <<>>))
       /\ o' = [d |-> d, inp |-> inp, outp |-> outp, mode |-> m[1], json |-> m[2], via |-> via, tz |-> Zones[z],
                lang |-> Langs[lg], zm |-> zm, cur |-> cur, cnl |-> cnl, af |-> ArgForms[af], odd |-> Odds[od]]

InSlice == \/ Part = "all"
           \/ Part = "clean_stdout" /\ o.mode = "clean" /\ o.outp = "stdout" /\ o.via = "none" /\ o.inp = "file"
           \/ Part = "stdout" /\ o.outp = "stdout" /\ o.inp = "file" /\ o.zm = 0

FlagTargets == IF o.via = "both" THEN SubSeq(TargetPool, Half + 1, Len(TargetPool)) ELSE TargetPool
Effective ==
  IF o.via = "none" THEN <<>>
  ELSE IF o.via = "file" THEN FileTargets
  ELSE IF o.via = "flags" THEN FlagTargets
  ELSE FileTargets \o FlagTargets

LibOp == IF o.mode = "clean" \/ o.odd = "json_clean" THEN "clean"
         ELSE IF o.mode = "list" THEN (IF o.json THEN "list_json" ELSE "list")
         ELSE (IF o.json THEN "list_all_json" ELSE "list_all")

EmitAll == (done /\ InSlice) =>
  EmitRec([id |-> "", src |-> Docs[o.d],
           ops |-> <<IF o.cur \in {"given", "naive"} THEN [op |-> "config", targets |-> Effective]
                     ELSE [op |-> "config", targets |-> Effective, now |-> "wall"],
                     [op |-> LibOp],
                     [op |-> "cli", input |-> o.inp, output |-> o.outp, mode |-> IF o.odd = "json_clean" THEN "clean" ELSE o.mode, json |-> o.json, odd |-> o.odd,
                      targets_via |-> o.via, current |-> o.cur, conf_final_newline |-> o.cnl, tz |-> o.tz, lang |-> o.lang, now_zone_min |-> o.zm,
                      file_targets |-> FileTargets, flag_targets |-> FlagTargets, argform |-> o.af,
                      omit |-> IF OmitAll THEN <<"ds", "de", "tl", "rm", "off">> ELSE <<>>]>>])
=============================================================================
