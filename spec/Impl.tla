-------------------------------- MODULE Impl --------------------------------
(***************************************************************************)
(* Layer I assembled: the whole pipeline of `clean`, `list` and `list_all` *)
(* as the code computes it, stage by stage, from the transcriptions        *)
(* ImplTok, ImplAttr, ImplTree, ImplMark, ImplFmt.  The removal decision   *)
(* of an element is taken from Eval.tla where the properties determine it  *)
(* (chrono's parser is not transcribed): "unknown" otherwise, and then no  *)
(* prediction is made for the document.                                    *)
(*                                                                         *)
(* ImplClean(t, c) = [tokens, tree, markers, removed, pos, fmt, out, crash,*)
(* unknown]; everything in character offsets, `tokens` also in bytes.      *)
(***************************************************************************)
EXTENDS ImplTok, ImplAttr, ImplMark, ImplFmt, Eval

ImplTg(t, tk5, ds, de) ==
  [i \in 1..Len(tk5) |->
     IF tk5[i][1] = 0 THEN [k |-> 0, st |-> "none", name |-> <<>>, attrs |-> <<>>]
     ELSE LET p == ImplParse(Slice(t, tk5[i][2], tk5[i][3]), ds, de)
          IN [k |-> 1, st |-> p.st, name |-> p.name, attrs |-> p.attrs]]

\* the evaluators as written: `attrs.iter().find(..)` - the FIRST attribute named `to` / `name` decides
FirstNamed(g, n) == LET S == {i \in 1..Len(g.attrs) : g.attrs[i].n = n} IN
                    IF S = {} THEN 0 ELSE CHOOSE i \in S : \A j \in S : i <= j

ImplMarkerDec(g, c) ==
  LET i == FirstNamed(g, Str_name) IN
  IF i = 0 THEN "keep" ELSE IF ~g.attrs[i].hv THEN "keep"
  ELSE IF g.attrs[i].v \in c.targets THEN "remove" ELSE "keep"

\* chrono's parser is transcribed only for the canonical and the listed malformed spellings
ImplTimeDec(g, c) ==
  LET i == FirstNamed(g, Str_to) IN
  IF i = 0 THEN "keep" ELSE IF ~g.attrs[i].hv THEN "keep"
  ELSE LET v == g.attrs[i].v IN
       IF MalformedOffset(c.off) \/ MalformedTime(v) THEN "keep"
       ELSE IF CanonTime(v) /\ CanonOffset(c.off)
            THEN (IF AtOrAfter(c.now, ExpiryInstant(v, c.off)) THEN "remove" ELSE "keep")
       ELSE "unknown"

\* evaluator registry: a HashMap keyed by tag name - the removal-marker evaluator is inserted last and wins
\* when both tag names are equal
DecOf(g, c) ==
  IF g.k = 0 \/ g.st # "ok" THEN "none"
  ELSE IF \E i \in 1..Len(g.attrs) : g.attrs[i].n = Str_skip THEN "none"
  ELSE IF g.name = c.rm THEN ImplMarkerDec(g, c)
  ELSE IF g.name = c.tl THEN ImplTimeDec(g, c)
  ELSE "none"

ImplStages(t, c) ==
  LET tk5 == ImplTokens(t, c.ds, c.de)
      tk  == [i \in 1..Len(tk5) |-> [k |-> tk5[i][1], s |-> tk5[i][2], e |-> tk5[i][3]]]
      tg  == ImplTg(t, tk5, c.ds, c.de)
      tree == ImplTree(tg)
      dec == [i \in 1..Len(tg) |-> DecOf(tg[i], c)]
  IN [tk5 |-> tk5, tk |-> tk, tg |-> tg, tree |-> tree, dec |-> dec,
      unknown |-> \E i \in 1..Len(dec) : dec[i] = "unknown"]

ImplClean(t, c) ==
  LET st == ImplStages(t, c)
      col == Collect(st.tree, t, st.tk, st.tg, st.dec, FALSE)
      mm == MergeMarkers(col[1])
      ap == IF mm.crash THEN [text |-> t, crash |-> TRUE] ELSE ApplyRemovals(t, mm.ms, Len(mm.ms))
      rp == IF ap.crash THEN [pos |-> <<>>, crash |-> TRUE] ELSE RemovedPos(mm.ms, 1, 0, <<>>)
      f  == IF rp.crash THEN [seams |-> <<>>, blocks |-> <<>>, final |-> <<>>, text |-> t, crash |-> TRUE]
            ELSE Format(ap.text, rp.pos)
  IN [tokens |-> st.tk5, rows |-> TreeRows(st.tree, 0), markers |-> mm.ms, removed |-> ap.text, pos |-> rp.pos,
      fmt |-> f, out |-> f.text, crash |-> mm.crash \/ ap.crash \/ rp.crash \/ f.crash, unknown |-> st.unknown]

\* markers of list (ready only) and list_all (ready + pending), rows <<start, end, pair, ready>>
ImplMarkersAll(t, c, withPending) ==
  LET st == ImplStages(t, c)
      col == Collect(st.tree, t, st.tk, st.tg, st.dec, withPending)
      rm == MergeMarkers(col[1])
      pm == MergeMarkers(col[2])
  IN [rows |-> IF withPending THEN MergeAll(rm.ms, pm.ms, 1, <<>>)
               ELSE [i \in 1..Len(rm.ms) |-> <<rm.ms[i][1], rm.ms[i][2], rm.ms[i][3], 1>>],
      crash |-> rm.crash \/ pm.crash, unknown |-> st.unknown]
=============================================================================
