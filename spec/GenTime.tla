------------------------------- MODULE GenTime -------------------------------
(***************************************************************************)
(* G_time (C05): `to` values around day / month / year / leap-day          *)
(* boundaries x offsets -12:00 .. +14:00 in both spellings x current       *)
(* instants on a second grid around the expiry instant, plus the malformed *)
(* classes.  One behaviour per (to, offset): the clock is stepped through  *)
(* the grid (SetClock) and the evaluator / a probe document is consulted   *)
(* at every step.                                                          *)
(***************************************************************************)
EXTENDS GenBase, Eval

CONSTANTS
  ToValues,     \* canonical `to` values (sequences of characters)
  BadTos,       \* malformed / odd `to` values
  OffMinutes,   \* set of offsets in minutes (e.g. -720, -705, ..., 840)
  BadOffsets,   \* malformed offset strings
  Deltas,       \* sequence of clock positions relative to the expiry instant, in seconds, ascending
  Millis,       \* sequence of sub-second parts (milliseconds) tried at every clock position, e.g. <<0, 999>>
  Probe         \* TRUE: also clean a one-element probe document at every clock position

VARIABLES ti, om, colon, phase

Init == ti = 0 /\ om = 0 /\ colon = TRUE /\ phase = "start"
Next == /\ phase = "start"
        /\ \/ \E i \in DOMAIN ToValues, m \in OffMinutes, c \in BOOLEAN : ti' = i /\ om' = m /\ colon' = c /\ phase' = "good"
           \/ \E i \in DOMAIN BadTos, m \in {0, 540, -300} : ti' = i /\ om' = m /\ colon' = TRUE /\ phase' = "badto"
           \/ \E i \in DOMAIN ToValues, k \in DOMAIN BadOffsets : ti' = i /\ om' = k /\ colon' = TRUE /\ phase' = "badoff"

Abs(x) == IF x < 0 THEN -x ELSE x
TwoDigits(n) == <<48 + (n \div 10), 48 + (n % 10)>>
OffString(m, c) == <<IF m < 0 THEN DASH ELSE PLUS>> \o TwoDigits(Abs(m) \div 60) \o (IF c THEN <<COLON>> ELSE <<>>) \o TwoDigits(Abs(m) % 60)

To == IF phase = "badto" THEN BadTos[ti] ELSE ToValues[ti]
Off == IF phase = "badoff" THEN BadOffsets[om] ELSE OffString(om, colon)

\* the instant at which `to` expires (for malformed inputs: any instant will do)
Base == IF phase = "good" THEN ExpiryInstant(To, Off) ELSE <<19800, 0>>

Q == <<39>>
ProbeDoc == DS \o TL \o <<32, 116, 111, 61>> \o Q \o To \o Q \o DE \o <<120>> \o DS \o <<47>> \o TL \o DE

RECURSIVE AtClock(_, _)
AtClock(k, j) ==
  IF j > Len(Millis) THEN <<>>
  ELSE <<[op |-> "config", now |-> NormInstant(<<Base[1], Base[2] + Deltas[k]>>), now_ms |-> Millis[j], off |-> Off],
         [op |-> "eval_time", to |-> To, has |-> TRUE, hv |-> TRUE]>>
       \o (IF Probe THEN <<[op |-> "clean"]>> ELSE <<>>)
       \o AtClock(k, j + 1)

RECURSIVE OpsFrom(_)
OpsFrom(k) == IF k > Len(Deltas) THEN <<>> ELSE AtClock(k, 1) \o OpsFrom(k + 1)

EmitAll == phase # "start" =>
  EmitRec([id |-> "", src |-> ProbeDoc, ops |-> OpsFrom(1)])
=============================================================================
