------------------------------ MODULE Prod_Tok ------------------------------
(***************************************************************************)
(* Product of the implementation's delimiter automaton (ImplTok!GetState)  *)
(* with the reference automaton (RefKmp!RefDelta) over the alphabet        *)
(* chars(ds) \cup chars(de) \cup {one other character}.  The string read   *)
(* so far is kept only as a witness and hidden from the fingerprint by     *)
(* VIEW, so TLC explores the finite product completely: Agree then holds   *)
(* after strings of every length.                                          *)
(***************************************************************************)
EXTENDS ImplTok, RefKmp, Json, TLC

CONSTANTS DS, DE, Alphabet

VARIABLES ist, rst, w

View == <<ist, rst>>

Init == ist = <<"Text">> /\ rst = RefInitState /\ w = <<>>
Next == \E i \in DOMAIN Alphabet :
          /\ ist' = GetState(Alphabet[i], DS, DE, ist)[2]
          /\ rst' = RefDelta(rst, Alphabet[i], DS, DE)
          /\ w' = Append(w, Alphabet[i])

\* the implementation state that corresponds to a reference state
MapImpl(st) ==
  IF st[1] = "Text" THEN <<"Out", 0>>
  ELSE IF st[1] = "DS" THEN (IF st[2] < Len(DS) THEN <<"Out", st[2]>> ELSE <<"Body0">>)
  ELSE IF st[1] = "In" THEN <<"Body", 0>>
  ELSE (IF st[2] < Len(DE) THEN <<"Body", st[2]>> ELSE <<"Closed">>)

\* Closed and Out(0) behave alike on every next character; the implementation has no separate state for
\* "delimiter start matched k characters right after a tag", the reference has none either
Agree == MapImpl(ist) = rst

\* one witness string per reachable product state, extended by every character: a transition cover
EmitWitness == \A i \in DOMAIN Alphabet : PrintT(<<"BEH", ToJson([id |-> "", src |-> Append(w, Alphabet[i])])>>)
=============================================================================
