------------------------------- MODULE GenTag -------------------------------
(***************************************************************************)
(* G_tag (C09): tags rendered from abstract syntax trees of the grammar of  *)
(* Grammar.tla - name, up to K attributes each bare / 'v' / "v", values    *)
(* from an adversarial pool, separators incl. line breaks and the README's *)
(* " \n * " continuation, optional spaces around '=', optional padding.    *)
(* The generator also states the round-trip theorem of the reference:      *)
(* RefParse(Render(ast)) = ast (checked by TLC as an invariant).           *)
(***************************************************************************)
EXTENDS GenBase, Grammar

CONSTANTS
  TagNames,    \* sequence of element names
  AttrNames,   \* sequence of attribute names
  Values,      \* sequence of values
  Seps,        \* sequence of separators
  Eqs,         \* sequence of <<spaces before '=', spaces after '='>>
  Pads,        \* sequence of <<left padding, right padding>>
  Trails,      \* sequence of trailing separators
  K            \* maximal number of attributes

VARIABLES nm, attrs, seps, eqs, fin      \* fin = <<pad, trail>> once the tag is complete, <<>> before

Init == nm \in 1..Len(TagNames) /\ attrs = <<>> /\ seps = <<>> /\ eqs = <<>> /\ fin = <<>>

Fits(v, q) == \A i \in 1..Len(v) : v[i] # q

AddAttr ==
  /\ fin = <<>> /\ Len(attrs) < K
  /\ \E a \in 1..Len(AttrNames), s \in 1..Len(Seps) :
       \/ /\ attrs' = Append(attrs, [n |-> AttrNames[a], hv |-> FALSE, v |-> <<>>, q |-> SQ])
          /\ seps' = Append(seps, Seps[s]) /\ eqs' = Append(eqs, <<0, 0>>)
       \/ \E v \in 1..Len(Values), q \in {SQ, DQ}, e \in 1..Len(Eqs) :
            /\ Fits(Values[v], q)
            /\ attrs' = Append(attrs, [n |-> AttrNames[a], hv |-> TRUE, v |-> Values[v], q |-> q])
            /\ seps' = Append(seps, Seps[s]) /\ eqs' = Append(eqs, Eqs[e])
  /\ UNCHANGED <<nm, fin>>

Finish == /\ fin = <<>>
          /\ \E p \in 1..Len(Pads), t \in 1..Len(Trails) : fin' = <<Pads[p], Trails[t]>>
          /\ UNCHANGED <<nm, attrs, seps, eqs>>

Next == AddAttr \/ Finish

Ast  == [name |-> TagNames[nm], attrs |-> [i \in 1..Len(attrs) |-> [n |-> attrs[i].n, hv |-> attrs[i].hv, v |-> attrs[i].v]]]
Body == RenderBody([name |-> TagNames[nm], attrs |-> attrs], seps, eqs, fin[1], fin[2])

\* a separator that itself contains words (" \n * ") contributes bare attributes: the expected AST is the
\* reference parse of the rendering; for plain separators it must be the AST we rendered
PlainSeps == \A i \in 1..Len(seps) : \A j \in 1..Len(seps[i]) : seps[i][j] \in {SP, NL}

RoundTrip == (fin # <<>> /\ PlainSeps) =>
  LET p == RefParse(Body, DS, DE) IN p.cls = "ok" /\ AstOf(p) = Ast

CloserOf(n) == IF n[1] = SLASH THEN n ELSE <<SLASH>> \o n
Doc == DS \o Body \o DE \o <<NL, 88, NL>> \o DS \o CloserOf(TagNames[nm]) \o DE \o <<NL>>

EmitAll == fin # <<>> => Emit("", Doc)
=============================================================================
