------------------------------- MODULE MC_Attr -------------------------------
(***************************************************************************)
(* Model checking of the tag-parser layer without running any code: on     *)
(* every tag body over an adversarial alphabet up to length N, Layer I     *)
(* (ImplAttr) satisfies the Layer R requirement C09 - for bodies inside    *)
(* the grammar the parse is the reference parse, definite non-tags are     *)
(* not parsed.  ClassCover counts nothing but makes TLC's coverage show    *)
(* that all three classes occur.                                           *)
(***************************************************************************)
EXTENDS ImplAttr, Grammar, TLC

CONSTANTS DS, DE, Alphabet, N

VARIABLE s

Init == s = <<>>
Next == Len(s) < N /\ \E i \in DOMAIN Alphabet : s' = Append(s, Alphabet[i])

AttrsSame(a, r) == /\ Len(a) = Len(r)
                   /\ \A i \in 1..Len(r) : a[i].n = r[i].n /\ a[i].hv = r[i].hv /\ (r[i].hv => a[i].v = r[i].v)

\* bodies that contain a delimiter cannot occur inside a tag token; skip them
Possible == ~Occurs(s, DE) \/ Len(s) = 0

ImplRefines ==
  (Len(s) > 0 /\ ~Occurs(SubSeq(s, 2, Len(s)), DE)) =>
     LET p == RefParse(s, DS, DE)
         q == ImplParse(DS \o s \o DE, DS, DE)
     IN /\ p.cls = "ok" => (q.st = "ok" /\ q.name = p.name /\ AttrsSame(q.attrs, p.attrs))
        /\ p.cls = "text" => q.st = "none"
=============================================================================
