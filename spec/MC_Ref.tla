------------------------------- MODULE MC_Ref -------------------------------
(***************************************************************************)
(* Sanity theorems about the reference semantics itself (Layer R), checked *)
(* by TLC on the documents of the line generator.  They guard the oracle:  *)
(* a reference that contradicted itself would make every verdict           *)
(* meaningless.                                                            *)
(*   TokensSane   RefTokens is a contiguous partition of the text into     *)
(*                non-empty tokens, tags are delimited, texts never adjoin *)
(*                (the reference satisfies C07's shape);                   *)
(*   PairsSane    StackPairs pairs tag tokens only, every token in at most *)
(*                one pair, pairs are nested or disjoint, an opener's name *)
(*                equals its closer's name without the slash;              *)
(*   ExtentsSane  every extent lies inside its element, head before tail;  *)
(*   RegionsSane  the maximal ready ranges are pairwise disjoint; list_all *)
(*                regions are sorted by start and a pending region never   *)
(*                lies inside a ready one;                                 *)
(*   ClockSane    the ready set only grows when the clock advances and     *)
(*                when the target set grows (C05 / C19 at reference level).*)
(***************************************************************************)
EXTENDS GenLines, Listing

T == GenDoc \o <<NL>>
CfgNow(now, tg) == [ds |-> DS, de |-> DE, tl |-> TL, rm |-> RM, off |-> OFF, now |-> now, targets |-> tg]
C0 == CfgNow(NOW, SeqToSet(TARGETS))

TokensSane ==
  Complete =>
    LET tk == RefTokens(T, DS, DE) IN
    /\ tk[1].s = 0 /\ tk[Len(tk)].e = Len(T)
    /\ \A i \in 1..Len(tk) : tk[i].s < tk[i].e
    /\ \A i \in 1..(Len(tk) - 1) : tk[i + 1].s = tk[i].e /\ ~(tk[i].k = 0 /\ tk[i + 1].k = 0)
    /\ \A i \in 1..Len(tk) : tk[i].k = 1 =>
          LET v == Slice(T, tk[i].s, tk[i].e) IN HasPrefix(v, DS) /\ HasSuffix(v, DE) /\ Len(v) > Len(DS) + Len(DE)

PairsSane ==
  Complete =>
    LET d == Doc(T, C0)
        ps == d.pairs
    IN /\ \A p \in ps : p[1] < p[2] /\ d.tg[p[1]].k = 1 /\ d.tg[p[2]].k = 1
                        /\ d.tg[p[2]].name = <<SLASH>> \o d.tg[p[1]].name
       /\ \A p \in ps, q \in ps :
            p # q => /\ {p[1], p[2]} \cap {q[1], q[2]} = {}
                     /\ (p[2] < q[1] \/ q[2] < p[1] \/ (p[1] < q[1] /\ q[2] < p[2]) \/ (q[1] < p[1] /\ p[2] < q[2]))

ExtentsSane ==
  Complete =>
    \A e \in Doc(T, C0).elems :
       /\ \A i \in 1..Len(e.ext) : e.os <= e.ext[i][1] /\ e.ext[i][1] < e.ext[i][2] /\ e.ext[i][2] <= e.ce
       /\ Len(e.ext) = 2 => e.ext[1][2] <= e.ext[2][1]
       /\ e.unwrappable <=> (e.uw /\ Len(e.ext) = 2)

RegionsSane ==
  Complete =>
    LET d == Doc(T, C0) IN
    C15Space(T, d) =>
      LET rr == ReadyRegions(d)
          ar == AllRegions(d)
      IN /\ \A i \in 1..(Len(rr) - 1) : rr[i][2] <= rr[i + 1][1]
         /\ \A i \in 1..(Len(ar) - 1) : ar[i][1][1] <= ar[i + 1][1][1]
         /\ \A i \in 1..Len(ar), j \in 1..Len(ar) :
              (ar[i][2] = "Pending" /\ ar[j][2] = "Ready") => ~(ar[j][1][1] <= ar[i][1][1] /\ ar[i][1][2] <= ar[j][1][2])

Later == <<NOW[1] + 400, NOW[2]>>
ClockSane ==
  Complete =>
    LET r0 == {<<e.oi, e.ci>> : e \in ReadyElems(Doc(T, C0))}
        r1 == {<<e.oi, e.ci>> : e \in ReadyElems(Doc(T, CfgNow(Later, SeqToSet(TARGETS))))}
        r2 == {<<e.oi, e.ci>> : e \in ReadyElems(Doc(T, CfgNow(NOW, SeqToSet(TARGETS) \cup {<<98>>})))}
    IN r0 \subseteq r1 /\ r0 \subseteq r2
=============================================================================
