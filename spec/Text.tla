------------------------------- MODULE Text -------------------------------
(***************************************************************************)
(* Characters, texts, UTF-8 byte offsets, lines and whitespace.            *)
(*                                                                         *)
(* A character is a natural number (its Unicode scalar value); a text is a *)
(* sequence of characters.  TLA+ strings are atomic in TLC, so no source   *)
(* text is ever a TLA+ string.  Offsets are 0-based and ranges half-open,  *)
(* [s, e), exactly as in the implementation; the characters of the range   *)
(* are t[s+1] .. t[e].                                                     *)
(***************************************************************************)
EXTENDS Naturals, Integers, Sequences, FiniteSets

NL  == 10
CR  == 13
SP  == 32
TAB == 9

IsBlank(c) == c = SP \/ c = TAB              \* indentation characters
IsWs(c)    == c = SP \/ c = TAB \/ c = NL    \* what tidying may delete

Min2(a, b) == IF a <= b THEN a ELSE b
Max2(a, b) == IF a >= b THEN a ELSE b

\* UTF-8 width of a scalar value
W(c) == IF c < 128 THEN 1 ELSE IF c < 2048 THEN 2 ELSE IF c < 65536 THEN 3 ELSE 4

\* BytePos(t)[i] = byte offset of the character with 0-based index i-1, BytePos(t)[Len(t)+1] = byte length
RECURSIVE BytePosAcc(_, _, _)
BytePosAcc(t, i, acc) ==
  IF i > Len(t) THEN acc ELSE BytePosAcc(t, i + 1, Append(acc, acc[i] + W(t[i])))
BytePos(t) == BytePosAcc(t, 1, <<0>>)

\* 0-based character offset of byte offset b, or -1 when b is not a character boundary of the text
CharOfByte(bp, b) ==
  LET S == {i \in DOMAIN bp : bp[i] = b} IN IF S = {} THEN -1 ELSE (CHOOSE i \in S : TRUE) - 1

Slice(t, s, e) == SubSeq(t, s + 1, e)        \* characters of [s, e)

\* d occurs in t at 1-based index p
StartsAt(t, p, d) ==
  /\ p >= 1
  /\ p + Len(d) - 1 <= Len(t)
  /\ \A k \in 1..Len(d) : t[p + k - 1] = d[k]

\* least 1-based index >= p at which d occurs in t, 0 if none
RECURSIVE FindFrom(_, _, _)
FindFrom(t, p, d) ==
  IF p + Len(d) - 1 > Len(t) THEN 0
  ELSE IF StartsAt(t, p, d) THEN p
  ELSE FindFrom(t, p + 1, d)

HasPrefix(t, d) == StartsAt(t, 1, d)
HasSuffix(t, d) == Len(d) <= Len(t) /\ StartsAt(t, Len(t) - Len(d) + 1, d)
Occurs(t, d)    == FindFrom(t, 1, d) # 0

\* a is a (not necessarily contiguous) subsequence of b
RECURSIVE IsSubseqFrom(_, _, _, _)
IsSubseqFrom(a, b, i, j) ==
  IF i > Len(a) THEN TRUE
  ELSE IF Len(a) - i > Len(b) - j THEN FALSE
  ELSE IF a[i] = b[j] THEN IsSubseqFrom(a, b, i + 1, j + 1)
  ELSE IsSubseqFrom(a, b, i, j + 1)
IsSubseq(a, b) == IsSubseqFrom(a, b, 1, 1)

NonWs(t)   == SelectSeq(t, LAMBDA c : ~IsWs(c))
AllWs(t)   == \A i \in 1..Len(t) : IsWs(t[i])
AllBlank(t) == \A i \in 1..Len(t) : IsBlank(t[i])

RECURSIVE ConcatAll(_)
ConcatAll(ss) == IF ss = <<>> THEN <<>> ELSE Head(ss) \o ConcatAll(Tail(ss))

\* leading / trailing whitespace trimmed
RECURSIVE TrimL(_)
TrimL(t) == IF t # <<>> /\ IsWs(t[1]) THEN TrimL(Tail(t)) ELSE t
RECURSIVE TrimR(_)
TrimR(t) == IF t # <<>> /\ IsWs(t[Len(t)]) THEN TrimR(SubSeq(t, 1, Len(t) - 1)) ELSE t
Trim(t) == TrimR(TrimL(t))

(***************************************************************************)
(* Lines.  A text with n line breaks has n + 1 lines (the last one may be   *)
(* empty).  Line k is the half-open character range [LineS(k), LineE(k)),   *)
(* LineE(k) being the offset of its line break or the text length.          *)
(***************************************************************************)
Breaks(t) == SelectSeq([i \in 1..Len(t) |-> IF t[i] = NL THEN i - 1 ELSE -1], LAMBDA x : x >= 0)
                                                   \* 0-based offsets of the line breaks, ascending
NumLines(br) == Len(br) + 1
LineS(br, k) == IF k = 1 THEN 0 ELSE br[k - 1] + 1
LineE(t, br, k) == IF k <= Len(br) THEN br[k] ELSE Len(t)
LineText(t, br, k) == Slice(t, LineS(br, k), LineE(t, br, k))
\* 1-based number of the line that contains the character at 0-based offset p
\* (a line break belongs to the line it ends)
LineOf(br, p) == 1 + Cardinality({i \in DOMAIN br : br[i] < p})

\* number of leading blanks of a text
RECURSIVE IndentLenFrom(_, _)
IndentLenFrom(t, i) == IF i <= Len(t) /\ IsBlank(t[i]) THEN IndentLenFrom(t, i + 1) ELSE i - 1
IndentLen(t) == IndentLenFrom(t, 1)

IsBlankLine(t) == AllBlank(t)

SeqToSet(s) == {s[i] : i \in DOMAIN s}
Last(s) == s[Len(s)]

\* decimal digits of a natural number
RECURSIVE Digits(_)
Digits(n) == IF n < 10 THEN <<48 + n>> ELSE Append(Digits(n \div 10), 48 + (n % 10))
IsDigit(c) == c >= 48 /\ c <= 57
RECURSIVE RepeatCh(_, _)
RepeatCh(c, n) == IF n <= 0 THEN <<>> ELSE <<c>> \o RepeatCh(c, n - 1)
=============================================================================
