------------------------------ MODULE ImplAttr ------------------------------
(***************************************************************************)
(* Layer I: transcription of chiritori/src/element_parser.rs (tree with    *)
(* the "returns None for a tag without a name" and "skips line breaks      *)
(* between attributes" repairs).  Strip is trim_start_matches /            *)
(* trim_end_matches (repeated); AttrStep is one iteration of the fold over *)
(* the characters of the stripped target.                                  *)
(* State: [st, pos0, pairs] with st one of "NameBegin", "Name", "NameEnd", *)
(* "ValueBegin", "NoQuote", "DQuote", "SQuote", "Error"; pos0 the start    *)
(* index remembered by Name / DQuote / SQuote.                             *)
(***************************************************************************)
EXTENDS Text

RECURSIVE StripStart(_, _)
StripStart(t, d) == IF HasPrefix(t, d) /\ Len(d) > 0 THEN StripStart(SubSeq(t, Len(d) + 1, Len(t)), d) ELSE t
RECURSIVE StripEnd(_, _)
StripEnd(t, d) == IF HasSuffix(t, d) /\ Len(d) > 0 THEN StripEnd(SubSeq(t, 1, Len(t) - Len(d)), d) ELSE t
Strip(t, ds, de) == StripEnd(StripStart(t, ds), de)

C_EQ == 61
C_DQ == 34
C_SQ == 39

AttrInit == [st |-> "NameBegin", pos0 |-> 0, pairs |-> <<>>]

SetLastValue(pairs, v) == [pairs EXCEPT ![Len(pairs)] = [n |-> @.n, hv |-> TRUE, v |-> v]]

\* b: the stripped target, i: 1-based index of the current character
AttrStep(s, b, i) ==
  LET c == b[i] IN
  IF s.st = "NameBegin" THEN
       IF c = SP \/ c = NL THEN s
       ELSE IF c \in {C_EQ, C_DQ, C_SQ} THEN [s EXCEPT !.st = "Error"]
       ELSE [s EXCEPT !.st = "Name", !.pos0 = i]
  ELSE IF s.st = "Name" THEN
       IF c = SP \/ c = NL THEN [s EXCEPT !.st = "NameEnd", !.pairs = Append(@, [n |-> SubSeq(b, s.pos0, i - 1), hv |-> FALSE, v |-> <<>>])]
       ELSE IF c = C_EQ THEN [s EXCEPT !.st = "ValueBegin", !.pairs = Append(@, [n |-> SubSeq(b, s.pos0, i - 1), hv |-> FALSE, v |-> <<>>])]
       ELSE s
  ELSE IF s.st = "NameEnd" THEN
       IF c = SP \/ c = NL THEN s
       ELSE IF c = C_EQ THEN [s EXCEPT !.st = "ValueBegin"]
       ELSE [s EXCEPT !.st = "Name", !.pos0 = i]
  ELSE IF s.st = "ValueBegin" THEN
       IF c = SP THEN s
       ELSE IF c = C_DQ THEN [s EXCEPT !.st = "DQuote", !.pos0 = i + 1]
       ELSE IF c = C_SQ THEN [s EXCEPT !.st = "SQuote", !.pos0 = i + 1]
       ELSE [s EXCEPT !.st = "NoQuote"]
  ELSE IF s.st = "DQuote" THEN
       IF c = C_DQ THEN [s EXCEPT !.st = "NameBegin", !.pairs = SetLastValue(@, SubSeq(b, s.pos0, i - 1))] ELSE s
  ELSE IF s.st = "SQuote" THEN
       IF c = C_SQ THEN [s EXCEPT !.st = "NameBegin", !.pairs = SetLastValue(@, SubSeq(b, s.pos0, i - 1))] ELSE s
  ELSE IF s.st = "NoQuote" THEN
       IF c = SP THEN [s EXCEPT !.st = "NameBegin"] ELSE s
  ELSE s

RECURSIVE AttrFold(_, _, _)
AttrFold(s, b, i) == IF i > Len(b) THEN s ELSE AttrFold(AttrStep(s, b, i), b, i + 1)

\* result: [st |-> "ok" | "none" | "panic", name, attrs]
ImplParse(tagtext, ds, de) ==
  LET b == Strip(tagtext, ds, de)
      s == AttrFold(AttrInit, b, 1)
      pairs == IF s.st = "Name" THEN Append(s.pairs, [n |-> SubSeq(b, s.pos0, Len(b)), hv |-> FALSE, v |-> <<>>]) ELSE s.pairs
  IN IF s.st = "Error" \/ pairs = <<>> THEN [st |-> "none", name |-> <<>>, attrs |-> <<>>]
     ELSE [st |-> "ok", name |-> pairs[1].n, attrs |-> Tail(pairs)]
=============================================================================
