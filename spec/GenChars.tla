------------------------------ MODULE GenChars ------------------------------
(***************************************************************************)
(* G_chars: every string of length <= N over an alphabet (the delimiter    *)
(* characters plus fillers, incl. multi-byte characters).                  *)
(***************************************************************************)
EXTENDS GenBase

CONSTANTS Alphabet,   \* sequence of characters
          N           \* maximal length

VARIABLE s

Init == s = <<>>
Next == Len(s) < N /\ \E i \in DOMAIN Alphabet : s' = Append(s, Alphabet[i])
EmitAll == Len(s) > 0 => Emit(ToString(s), s)
=============================================================================
