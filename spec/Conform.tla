------------------------------ MODULE Conform ------------------------------
(***************************************************************************)
(* Conformance of the code to Layer I (drift detection).  Each predicate   *)
(* compares an observed stage result with the value the transcription      *)
(* Impl.tla computes from the same inputs.  A mismatch prints a DRIFT       *)
(* record and is TRUE: drift means the transcription and the code have     *)
(* parted (the model must be re-synchronised); it is never a verdict -     *)
(* verdicts come from the Layer R predicates of Props.tla only.            *)
(***************************************************************************)
EXTENDS KnownFindings, Impl, ImplList

Drift(layer, ok, who) == ok \/ PrintT(<<"DRIFT", layer, who>>)

ObsTok5 == [i \in 1..Len(toks) |-> SubSeq(toks[i], 1, 5)]

ConfTokens(who) ==
  AtTokens => Drift("ImplTok", ObsTok5 = ImplTokens(file, cfg.ds, cfg.de), who)

\* rows of ImplTree with token indices turned into the byte starts the hook reports
ImplTreeRowsBytes(st) ==
  LET rows == TreeRows(st.tree, 0) IN
  [i \in 1..Len(rows) |-> <<rows[i][1], rows[i][2], st.tk5[rows[i][3]][4],
                            IF rows[i][4] = 0 THEN -1 ELSE st.tk5[rows[i][4]][4]>>]

ConfTree(who) ==
  pc \in {"treed", "tree_done"} =>
     Drift("ImplTree", tree = ImplTreeRowsBytes(ImplStages(file, cfg)), who)

MarkersToBytes(t, ms) == LET bp == BytePos(t) IN [i \in 1..Len(ms) |-> <<bp[ms[i][1] + 1], bp[ms[i][2] + 1]>> \o SubSeq(ms[i], 3, Len(ms[i]))]

ConfMarkers(who) ==
  /\ (pc = "marked" /\ op \in CleanOps) =>
        LET r == ImplClean(file, cfg) IN
        Drift("ImplMark", r.unknown \/ r.crash \/ (marks = MarkersToBytes(file, r.markers) /\ removed = r.removed), who)
  /\ (pc = "marked" /\ op \in ListOps) =>
        LET r == ImplMarkersAll(file, cfg, op \in {"list_all", "list_all_json"}) IN
        Drift("ImplMarkAll", r.unknown \/ r.crash \/ marks = MarkersToBytes(file, r.rows), who)

SeamRows == SelectSeq(fmt, LAMBDA f : f[1] = "Seam")
FinalRows == SelectSeq(fmt, LAMBDA f : f[1] = "FinalRanges")

ConfOut(who) ==
  (pc = "returned" /\ op \in CleanOps) =>
     LET r == ImplClean(LastSrc, cfg)
         bp == BytePos(r.removed)
     IN /\ Drift("ImplClean", r.unknown \/ (~r.crash /\ out = r.out), who)
        /\ (fmt # <<>> /\ ~r.unknown /\ ~r.crash) =>
             /\ Drift("ImplFmt.seams",
                      [i \in 1..Len(SeamRows) |-> SeamRows[i][2][1]]
                        = [i \in 1..Len(r.pos) |-> <<bp[r.pos[i][1] + 1], bp[r.fmt.seams[i][1] + 1], bp[r.fmt.seams[i][2] + 1]>>], who)
             /\ Drift("ImplFmt.final",
                      Len(FinalRows) = 1 /\ FinalRows[1][2] = [i \in 1..Len(r.fmt.final) |-> <<bp[r.fmt.final[i][1] + 1], bp[r.fmt.final[i][2] + 1]>>], who)

\* a panic the transcription does not predict (or the other way round) is drift as well; C01 gives the verdict
ConfCrash(who) ==
  (pc = "crashed" /\ op \in CleanOps) =>
     LET r == ImplClean(file, cfg) IN Drift("ImplClean.crash", r.unknown \/ r.crash, who)

ItemsAgree(obs, impl) ==
  /\ Len(obs) = Len(impl)
  /\ \A i \in 1..Len(impl) : obs[i].lr = impl[i].lr /\ obs[i].block = impl[i].block /\ obs[i].status = impl[i].status

ConfItems(who) ==
  (pc = "returned" /\ op \in {"list_json", "list_all_json"}) =>
     LET r == ImplMarkersAll(file, cfg, op = "list_all_json") IN
     Drift("ImplList", r.unknown \/ r.crash \/ (\E i \in 1..Len(file) : file[i] = CR)
                       \/ ItemsAgree(items, ImplItems(file, r.rows)), who)

ConfPretty(who) ==
  (pc = "returned" /\ op \in {"list", "list_all"}) =>
     LET r == ImplMarkersAll(file, cfg, op = "list_all") IN
     Drift("ImplPretty", r.unknown \/ r.crash \/ (\E i \in 1..Len(file) : file[i] = CR) \/ out = ImplPretty(file, r.rows), who)

(***************************************************************************)
(* Growth beyond the listed properties: a process run without a usable     *)
(* --time-limited-current reads the system clock.  The harness read the    *)
(* clock itself just before (cfg.now, Configure event) and just after      *)
(* (res.wall1) the run; when no element changes its status between the two *)
(* readings the run must yield the library result for cfg.  Reported as    *)
(* DRIFT: no listed property speaks about the default clock.               *)
(***************************************************************************)
ConfWallClock(who) ==
  (pc = "cli_done" /\ ~res.cur_given /\ CfgOfOpts(res, cfg)) =>
     LET me == hist[Len(hist)]
         c1 == [cfg EXCEPT !.now = res.wall1]
     IN (LaterOrEqual(res.wall1, cfg.now) /\ Doc(me.src, cfg).elems = Doc(me.src, c1).elems) =>
          Drift("CliWallClock",
                /\ res.exit = 0
                /\ \A i \in 1..(Len(hist) - 1) :
                      LET h == hist[i] IN
                      (h.op = LibOpOf(res) /\ h.src = me.src /\ h.cfg = cfg) => Payload(res) = h.out, who)

(***************************************************************************)
(* Growth beyond the listed properties: the process model of the command   *)
(* for option combinations and failures no property speaks about.          *)
(* --list wins over --list-all; --list-json without a list mode is         *)
(* ignored; a --filename that cannot be opened or an --output that cannot  *)
(* be created ends the process with a panic (status 101) and an empty      *)
(* standard output, the input file stays as it is.  Reported as DRIFT.     *)
(***************************************************************************)
ConfCliOdd(who) ==
  (pc = "cli_done" /\ res.odd # "" /\ res.cur_given /\ CfgOfOpts(res, cfg)) =>
     LET me == hist[Len(hist)]
         lib == IF res.mode = "clean" THEN "clean" ELSE IF res.json THEN "list_json" ELSE "list"
         AsLibrary == /\ res.exit = 0
                      /\ \A i \in 1..(Len(hist) - 1) :
                            LET h == hist[i] IN (h.op = lib /\ h.src = me.src /\ h.cfg = cfg) => Payload(res) = h.out
     IN Drift("CliOdd",
              CASE res.odd \in {"both_lists", "json_clean"} -> AsLibrary
                [] res.odd = "missing_input" -> res.exit = 101 /\ res.stdout = <<>> /\ ~res.has_outfile
                [] res.odd = "bad_outdir" -> res.exit = 101 /\ res.stdout = <<>> /\ ~res.has_outfile
                                             /\ (res.input = "file" => res.has_infile /\ res.infile_after = me.src)
                [] OTHER -> TRUE, who)

ConfAll(who) == ConfTokens(who) /\ ConfTree(who) /\ ConfMarkers(who) /\ ConfOut(who) /\ ConfCrash(who) /\ ConfItems(who) /\ ConfPretty(who)
                /\ ConfWallClock(who) /\ ConfCliOdd(who)
=============================================================================
