------------------------------- MODULE GenHist -------------------------------
(***************************************************************************)
(* G_hist (C19): documents whose elements carry expiry times t1 < t2 < t3  *)
(* (kinds T1..T3) or marker names m1..m3 (kinds M1..M3), cleaned           *)
(* periodically: every chain of a pool of non-decreasing configuration     *)
(* chains.  A behaviour first cleans the original document once with the   *)
(* final configuration (the at-once result) and then runs the chain step   *)
(* by step, writing each result back (commit) and cleaning it once more    *)
(* with the same configuration (idempotence).                              *)
(***************************************************************************)
EXTENDS GenLines

CONSTANT Chains     \* sequence of chains; a chain is a sequence of [now, targets]

RECURSIVE Steps(_, _)
Steps(ch, k) ==
  IF k > Len(ch) THEN <<>>
  ELSE <<[op |-> "config", now |-> ch[k].now, targets |-> ch[k].targets], [op |-> "commit"], [op |-> "clean"]>>
       \o Steps(ch, k + 1)

OpsFor(ch) ==
  <<[op |-> "config", now |-> ch[Len(ch)].now, targets |-> ch[Len(ch)].targets], [op |-> "clean"]>> \o Steps(ch, 1)

EmitHist == Complete =>
  \A j \in 1..Len(Chains) : EmitRec([id |-> "", src |-> GenDoc \o <<NL>>, ops |-> OpsFor(Chains[j])])
=============================================================================
