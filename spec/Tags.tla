------------------------------- MODULE Tags -------------------------------
(***************************************************************************)
(* Reference tag recognition: the textbook leftmost-shortest delimiter     *)
(* scan of C08, and the token partition it induces (C07).                   *)
(***************************************************************************)
EXTENDS Text

(***************************************************************************)
(* RefSpans(t, ds, de): scan left to right; the leftmost occurrence of ds, *)
(* at least one body character, then the first occurrence of de that       *)
(* begins after that character; continue behind the span.  If the leftmost *)
(* start delimiter has no matching end, no later one has either, so the    *)
(* scan stops and the rest is text.  Result: sequence of <<s, e>>, 0-based *)
(* half-open character ranges.                                             *)
(***************************************************************************)
RECURSIVE RefSpansFrom(_, _, _, _, _)
RefSpansFrom(t, ds, de, p, acc) ==
  LET i == FindFrom(t, p, ds) IN
  IF i = 0 THEN acc
  ELSE IF i + Len(ds) > Len(t) THEN acc
  ELSE LET j == FindFrom(t, i + Len(ds) + 1, de) IN
       IF j = 0 THEN acc
       ELSE RefSpansFrom(t, ds, de, j + Len(de), Append(acc, <<i - 1, j + Len(de) - 1>>))

RefSpans(t, ds, de) == RefSpansFrom(t, ds, de, 1, <<>>)

(***************************************************************************)
(* The token partition induced by a span list: tags at the spans, maximal  *)
(* text tokens in the gaps.  A token is [k |-> 0 text / 1 tag, s, e].      *)
(***************************************************************************)
RECURSIVE TokensOfSpans(_, _, _, _)
TokensOfSpans(n, spans, i, pos) ==
  IF i > Len(spans)
  THEN IF pos < n THEN <<[k |-> 0, s |-> pos, e |-> n]>> ELSE <<>>
  ELSE LET sp == spans[i]
           gap == IF pos < sp[1] THEN <<[k |-> 0, s |-> pos, e |-> sp[1]]>> ELSE <<>>
       IN gap \o <<[k |-> 1, s |-> sp[1], e |-> sp[2]]>> \o TokensOfSpans(n, spans, i + 1, sp[2])

RefTokens(t, ds, de) == TokensOfSpans(Len(t), RefSpans(t, ds, de), 1, 0)

\* the body of a tag text: exactly one start delimiter and one end delimiter removed
TagBody(tagtext, ds, de) == SubSeq(tagtext, Len(ds) + 1, Len(tagtext) - Len(de))
=============================================================================
