------------------------------- MODULE RefKmp -------------------------------
(***************************************************************************)
(* The reference scan of Tags.tla as a finite automaton (Knuth-Morris-     *)
(* Pratt matching of the start delimiter outside tags and of the end       *)
(* delimiter inside tag bodies).  Used for the unbounded-length argument:  *)
(*   RefSpans = spans of this automaton     (checked by TLC on G_chars)    *)
(*   implementation automaton ~ this one    (Prod_Tok, all string lengths) *)
(* States: <<"Out", j>> j characters of ds matched, <<"Body0">> ds         *)
(* complete (the next character is body whatever it is), <<"Body", j>>     *)
(* inside the body with j characters of de matched, <<"Closed">> de just   *)
(* completed.                                                              *)
(***************************************************************************)
EXTENDS Text

\* longest n <= Len(d) such that d[1..n] is a suffix of d[1..j] \o <<c>>
KmpNext(d, j, c) ==
  LET read == SubSeq(d, 1, j) \o <<c>>
      S == {n \in 0..Min2(Len(read), Len(d)) : SubSeq(d, 1, n) = SubSeq(read, Len(read) - n + 1, Len(read))}
  IN CHOOSE n \in S : \A m \in S : m <= n

RefDelta(q, c, ds, de) ==
  LET out(j) == LET n == KmpNext(ds, j, c) IN IF n = Len(ds) THEN <<"Body0">> ELSE <<"Out", n>>
  IN IF q[1] = "Out" THEN out(q[2])
     ELSE IF q[1] = "Closed" THEN out(0)
     ELSE IF q[1] = "Body0" THEN <<"Body", 0>>
     ELSE LET n == KmpNext(de, q[2], c) IN IF n = Len(de) THEN <<"Closed">> ELSE <<"Body", n>>

RefInitState == <<"Out", 0>>

\* spans recognised by the automaton on text t
RECURSIVE KmpSpans(_, _, _, _, _, _, _)
KmpSpans(t, i, q, open, acc, ds, de) ==
  IF i > Len(t) THEN acc
  ELSE LET q2 == RefDelta(q, t[i], ds, de)
           open2 == IF q2 = <<"Body0">> THEN i - Len(ds) ELSE open
       IN KmpSpans(t, i + 1, q2, open2, IF q2 = <<"Closed">> THEN Append(acc, <<open2, i>>) ELSE acc, ds, de)

RefKmpSpans(t, ds, de) == KmpSpans(t, 1, RefInitState, 0, <<>>, ds, de)
=============================================================================
