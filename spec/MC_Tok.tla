------------------------------- MODULE MC_Tok -------------------------------
(***************************************************************************)
(* Model checking of the tokenizer layer without running any code:         *)
(*   ImplRefines   Layer I (ImplTok) satisfies the Layer R requirements    *)
(*                 C07 / C08 on every string of G_chars;                   *)
(*   KmpIsRef      the automaton form of the reference equals RefSpans.    *)
(***************************************************************************)
EXTENDS ImplTok, Tags, RefKmp, TLC

CONSTANTS DS, DE, Alphabet, N

VARIABLE s

Init == s = <<>>
Next == Len(s) < N /\ \E i \in DOMAIN Alphabet : s' = Append(s, Alphabet[i])

ImplRefines ==
  LET it == ImplTokens(s, DS, DE)
      bp == BytePos(s)
  IN /\ [i \in 1..Len(it) |-> [k |-> it[i][1], s |-> it[i][2], e |-> it[i][3]]] = RefTokens(s, DS, DE)
     /\ \A i \in 1..Len(it) : it[i][4] = bp[it[i][2] + 1] /\ it[i][5] = bp[it[i][3] + 1]

KmpIsRef == RefKmpSpans(s, DS, DE) = RefSpans(s, DS, DE)
=============================================================================
