-------------------------------- MODULE Eval --------------------------------
(***************************************************************************)
(* Reference removal decision (C05, C06).                                  *)
(*                                                                         *)
(* Status of an element with parsed open tag p under configuration c:      *)
(*   "ready"    its condition holds and it is not marked skip              *)
(*   "pending"  registered tag name, condition does not hold               *)
(*   "inert"    skip, or unregistered tag name                             *)
(*   "lenient"  the properties do not determine the decision (spellings of *)
(*              dates / offsets that are neither canonical nor in a listed *)
(*              malformed class, duplicate to/name attributes, both tag    *)
(*              names configured equal)                                    *)
(* Instants are pairs <<day number since 1970-01-01, second of day>> so    *)
(* that TLC's 32-bit integers suffice.                                     *)
(***************************************************************************)
EXTENDS Grammar, Integers

Str_to   == <<116, 111>>
Str_name == <<110, 97, 109, 101>>
Str_skip == <<115, 107, 105, 112>>
Str_unwrap == <<117, 110, 119, 114, 97, 112, 45, 98, 108, 111, 99, 107>>

DASH  == 45
COLON == 58
PLUS  == 43

Dig(c) == c - 48
Num2(t, i) == Dig(t[i]) * 10 + Dig(t[i + 1])
Num4(t, i) == Dig(t[i]) * 1000 + Dig(t[i + 1]) * 100 + Dig(t[i + 2]) * 10 + Dig(t[i + 3])

IsLeap(y) == (y % 4 = 0 /\ y % 100 # 0) \/ y % 400 = 0
DaysInMonth(y, m) == IF m = 2 THEN (IF IsLeap(y) THEN 29 ELSE 28)
                     ELSE IF m \in {4, 6, 9, 11} THEN 30 ELSE 31

\* days since 1970-01-01 of a proleptic Gregorian civil date (y >= 0)
DaysFromCivil(y, m, d) ==
  LET yy  == IF m <= 2 THEN y - 1 ELSE y
      era == yy \div 400
      yoe == yy - era * 400
      mp  == IF m > 2 THEN m - 3 ELSE m + 9
      doy == (153 * mp + 2) \div 5 + d - 1
      doe == yoe * 365 + yoe \div 4 - yoe \div 100 + doy
  IN era * 146097 + doe - 719468

\* shape YYYY-MM-DD hh:mm:ss
TimeShape(t) ==
  /\ Len(t) = 19
  /\ \A i \in {1, 2, 3, 4, 6, 7, 9, 10, 12, 13, 15, 16, 18, 19} : IsDigit(t[i])
  /\ t[5] = DASH /\ t[8] = DASH /\ t[11] = SP /\ t[14] = COLON /\ t[17] = COLON

TimeFieldsOK(t) ==
  LET y == Num4(t, 1) m == Num2(t, 6) d == Num2(t, 9) h == Num2(t, 12) mi == Num2(t, 15) s == Num2(t, 18) IN
  /\ m >= 1 /\ m <= 12 /\ d >= 1 /\ d <= DaysInMonth(y, m) /\ h <= 23 /\ mi <= 59 /\ s <= 59

CanonTime(t) == TimeShape(t) /\ TimeFieldsOK(t) /\ Num4(t, 1) >= 1

\* local civil time as <<day, second of day>>
CivilOf(t) == <<DaysFromCivil(Num4(t, 1), Num2(t, 6), Num2(t, 9)), Num2(t, 12) * 3600 + Num2(t, 15) * 60 + Num2(t, 18)>>

CountCh(t, c) == Cardinality({i \in 1..Len(t) : t[i] = c})
FirstNonSpace(t) == SkipSet(t, 1, {SP, TAB, NL, CR})

\* `to` values that no reading of "YYYY-MM-DD hh:mm:ss" accepts (the malformed classes of C05)
MalformedTime(t) ==
  \/ \E i \in 1..Len(t) : ~(IsDigit(t[i]) \/ t[i] \in {DASH, COLON, PLUS, SP, TAB, NL, CR})   \* other separators, zone names
  \/ CountCh(t, COLON) < 2                                                                   \* missing time part
  \/ CountCh(t, DASH) < 2
  \/ (\E i \in 1..Len(t) : t[i] = PLUS /\ i # FirstNonSpace(t))                               \* trailing zone
  \/ (TimeShape(t) /\ ~TimeFieldsOK(t) /\ Num2(t, 18) # 60)                                   \* out-of-range fields
  \/ (TimeShape(t) /\ Num2(t, 18) > 60)

\* offsets: +hh:mm / -hh:mm / +hhmm / -hhmm
OffShape(o) ==
  /\ Len(o) \in {5, 6} /\ o[1] \in {PLUS, DASH}
  /\ IsDigit(o[2]) /\ IsDigit(o[3])
  /\ IF Len(o) = 6 THEN o[4] = COLON /\ IsDigit(o[5]) /\ IsDigit(o[6]) ELSE IsDigit(o[4]) /\ IsDigit(o[5])
OffH(o) == Num2(o, 2)
OffM(o) == IF Len(o) = 6 THEN Num2(o, 5) ELSE Num2(o, 4)
CanonOffset(o) == OffShape(o) /\ OffH(o) <= 14 /\ OffM(o) <= 59
OffSeconds(o) == (IF o[1] = DASH THEN -1 ELSE 1) * (OffH(o) * 3600 + OffM(o) * 60)

MalformedOffset(o) ==
  \/ Len(o) = 0
  \/ \E i \in 1..Len(o) : ~(IsDigit(o[i]) \/ o[i] \in {COLON, PLUS, DASH, SP})    \* Z, UTC, names
  \/ (Len(o) >= 1 /\ o[1] \notin {PLUS, DASH, SP})                               \* no sign
  \/ (OffShape(o) /\ (OffH(o) >= 24 \/ OffM(o) >= 60))                            \* out of range
  \/ CountCh(o, COLON) >= 2                                                       \* +09:00:00
  \/ (\A i \in 1..Len(o) : o[i] # SP) /\ Cardinality({i \in 1..Len(o) : IsDigit(o[i])}) < 4   \* +9, +09

\* instant (UTC) at which a canonical `to` expires under a canonical offset
RECURSIVE NormInstant(_)
NormInstant(p) == IF p[2] < 0 THEN NormInstant(<<p[1] - 1, p[2] + 86400>>)
                  ELSE IF p[2] >= 86400 THEN NormInstant(<<p[1] + 1, p[2] - 86400>>) ELSE p
ExpiryInstant(t, o) == LET c == CivilOf(t) IN NormInstant(<<c[1], c[2] - OffSeconds(o)>>)

AtOrAfter(a, b) == a[1] > b[1] \/ (a[1] = b[1] /\ a[2] >= b[2])

AttrsNamed(p, n) == SelectSeq(p.attrs, LAMBDA a : a.n = n)
HasAttr(p, n) == \E i \in 1..Len(p.attrs) : p.attrs[i].n = n

TimeDecision(p, c) ==
  LET tos == AttrsNamed(p, Str_to) IN
  IF Len(tos) = 0 THEN "pending"
  ELSE IF Len(tos) > 1 THEN "lenient"
  ELSE IF ~tos[1].hv THEN "pending"
  ELSE IF MalformedOffset(c.off) \/ MalformedTime(tos[1].v) THEN "pending"
  ELSE IF CanonTime(tos[1].v) /\ CanonOffset(c.off)
       THEN IF AtOrAfter(c.now, ExpiryInstant(tos[1].v, c.off)) THEN "ready" ELSE "pending"
  ELSE "lenient"

MarkerDecision(p, c) ==
  LET ns == AttrsNamed(p, Str_name) IN
  IF Len(ns) = 0 THEN "pending"
  ELSE IF Len(ns) > 1 THEN "lenient"
  ELSE IF ~ns[1].hv THEN "pending"
  ELSE IF ns[1].v \in c.targets THEN "ready" ELSE "pending"

Status(p, c) ==
  IF p.name # c.tl /\ p.name # c.rm THEN "inert"
  ELSE IF HasAttr(p, Str_skip) THEN "inert"
  ELSE IF c.tl = c.rm THEN "lenient"
  ELSE IF p.name = c.tl THEN TimeDecision(p, c) ELSE MarkerDecision(p, c)

IsUnwrap(p) == HasAttr(p, Str_unwrap)
=============================================================================
