--------------------------- MODULE KnownFindings ---------------------------
(***************************************************************************)
(* Signatures of the recorded (open) findings of /verif/known_findings.json.*)
(* A signature characterises the trigger of one genuine defect narrowly -   *)
(* input class and history - so that any other violation of the same        *)
(* property is still reported.  Inv_Cxx == Cxx \/ Listed(...): the Listed   *)
(* branch is evaluated only when the property predicate is FALSE, prints a  *)
(* KNOWN-FINDING record and lets TLC continue.                              *)
(***************************************************************************)
EXTENDS Props, TLC

(***************************************************************************)
(* C19-blank-wrappers: an unwrap-block (not yet ready) whose two wrapper    *)
(* lines are both blank.  A run that removes everything between them        *)
(* collapses the two blank lines into one (blank-line tidying, C13), after  *)
(* which fewer than two lines lie between the tags and no later run         *)
(* unwraps the block: stepwise cleaning differs from cleaning at once.      *)
(***************************************************************************)
KF_C19_BlankWrappers(t, c) ==
  LET d == Doc(t, c) IN
  \E e \in d.elems : /\ e.uw /\ e.m >= 2
                     /\ IsBlankLine(LineText(t, d.br, e.lo + 1))
                     /\ IsBlankLine(LineText(t, d.br, e.lc - 1))

Listed(prop, id, sig, who) == sig /\ PrintT(<<"KNOWN-FINDING", prop, id, who>>)
=============================================================================
