--------------------------- MODULE KnownFindings ---------------------------
(***************************************************************************)
(* Signatures of the recorded (open) findings of /verif/known_findings.json.*)
(* A signature characterises the trigger of one genuine defect narrowly -   *)
(* input class and history - so that any other violation of the same        *)
(* property is still reported.  Inv_Cxx == Cxx \/ Listed(...): the Listed   *)
(* branch is evaluated only when the property predicate is FALSE, prints a  *)
(* KNOWN-FINDING record and lets TLC continue.                              *)
(***************************************************************************)
EXTENDS Props, TLC

(***************************************************************************)
(* C19-blank-wrappers: an unwrap-block (not yet ready) whose two wrapper    *)
(* lines are both blank.  A run that removes everything between them        *)
(* collapses the two blank lines into one (blank-line tidying, C13), after  *)
(* which fewer than two lines lie between the tags and no later run         *)
(* unwraps the block: stepwise cleaning differs from cleaning at once.      *)
(***************************************************************************)
KF_C19_BlankWrappers(t, c) ==
  LET d == Doc(t, c) IN
  \E e \in d.elems : /\ e.uw /\ e.m >= 2
                     /\ IsBlankLine(LineText(t, d.br, e.lo + 1))
                     /\ IsBlankLine(LineText(t, d.br, e.lc - 1))

(***************************************************************************)
(* C19-blank-wrapper-lead: an unwrap-block with a blank wrapper line        *)
(* (opening or closing) that is followed by a line beginning (after its     *)
(* indentation) with an element lying wholly on that line, with text of the *)
(* line behind it ("<x>old</x> code;", or "<x>old</x> </block>" when the    *)
(* blank line is the closing wrapper line).  When an earlier run removes that element,         *)
(* PrevLineBreakRemover deletes the blank line in front of the position     *)
(* although code follows on the line (the repository's own test of the      *)
(* formatter pins this: a removal directly in front of "</div>" takes the   *)
(* blank line before it away), so the line of code becomes the wrapper line *)
(* - or too few lines are left to unwrap the block at all.                  *)
(***************************************************************************)
KF_C19_BlankWrapperLead(t, c) ==
  LET d == Doc(t, c) IN
  \E e \in d.elems :
     /\ e.uw /\ e.m >= 2
     /\ \E w \in {e.lo + 1, e.lc - 1} :            \* a blank wrapper line, opening or closing
           /\ IsBlankLine(LineText(t, d.br, w))
           /\ \E x \in d.elems :
                 LET k == w + 1 IN                 \* the line behind it begins with an element wholly on it, text follows
                 /\ LineOf(d.br, x.os) = k /\ LineOf(d.br, x.ce - 1) = k
                 /\ AllBlank(Slice(t, LineS(d.br, k), x.os))
                 /\ ~AllBlank(Slice(t, x.ce, LineE(t, d.br, k)))

Listed(prop, id, sig, who) == sig /\ PrintT(<<"KNOWN-FINDING", prop, id, who>>)
=============================================================================
