------------------------------ MODULE ImplTok ------------------------------
(***************************************************************************)
(* Layer I: transcription of chiritori/src/tokenizer.rs (tree with the     *)
(* "re-examines a failed partial delimiter match" repair).  One TokStep    *)
(* per character, exactly the fold of `tokenize`:                          *)
(*                                                                         *)
(*   st    automaton state: <<"Text">> | <<"DS", k>> | <<"In">> | <<"DE", k>>*)
(*         k = number of delimiter characters consumed so far              *)
(*         (State::DelimiterStart(chars) with k characters taken, ...)     *)
(*   bs, ss   byte_start_pos, start_pos of the token under construction    *)
(*   cur, bp  character index and byte position of the next character      *)
(*   acc      tokens pushed so far: <<kind, start, end, byte_start, byte_end>>*)
(***************************************************************************)
EXTENDS Text

\* fallback_len: longest prefix of d (length 1..matched) that is a suffix of d[1..matched] \o <<c>>
FallbackLen(d, matched, c) ==
  LET read == SubSeq(d, 1, matched) \o <<c>>
      S == {n \in 1..matched : SubSeq(d, 1, n) = SubSeq(read, Len(read) - n + 1, Len(read))}
  IN IF S = {} THEN 0 ELSE CHOOSE n \in S : \A m \in S : m <= n

\* check_delimiter_start
CheckStart(c, ds) == IF c = ds[1] THEN <<"DS", 1>> ELSE <<"Text">>

\* get_state: <<token kind emitted (-1 none, 0 text, 1 element), next state, back>>
GetState(c, ds, de, st) ==
  IF st[1] = "Text" THEN
       IF c = ds[1] THEN <<0, <<"DS", 1>>, 0>> ELSE <<-1, <<"Text">>, 0>>
  ELSE IF st[1] = "DS" THEN
       IF st[2] < Len(ds) THEN
            IF c = ds[st[2] + 1] THEN <<-1, <<"DS", st[2] + 1>>, 0>>
            ELSE LET n == FallbackLen(ds, st[2], c) IN
                 IF n = 0 THEN <<-1, <<"Text">>, 0>> ELSE <<0, <<"DS", n>>, n - 1>>
       ELSE <<-1, <<"In">>, 0>>                      \* first body character, consumed unconditionally
  ELSE IF st[1] = "In" THEN
       IF c = de[1] THEN <<-1, <<"DE", 1>>, 0>> ELSE <<-1, <<"In">>, 0>>
  ELSE \* "DE"
       IF st[2] < Len(de) THEN
            IF c = de[st[2] + 1] THEN <<-1, <<"DE", st[2] + 1>>, 0>>
            ELSE LET n == FallbackLen(de, st[2], c) IN
                 IF n = 0 THEN <<-1, <<"In">>, 0>> ELSE <<-1, <<"DE", n>>, 0>>
       ELSE <<1, CheckStart(c, ds), 0>>

RECURSIVE WidthSum(_, _)
WidthSum(d, n) == IF n = 0 THEN 0 ELSE W(d[n]) + WidthSum(d, n - 1)

\* one iteration of the fold; s = [st, bs, ss, cur, bp, acc]
TokStep(s, c, ds, de) ==
  LET g == GetState(c, ds, de, s.st)
      kind == g[1]
      back == g[3]
      endPos == s.cur - back
      byteEnd == s.bp - WidthSum(ds, back)
      push == kind # -1 /\ byteEnd - s.bs > 0
  IN [st  |-> g[2],
      bs  |-> IF kind # -1 THEN byteEnd ELSE s.bs,
      ss  |-> IF kind # -1 THEN endPos ELSE s.ss,
      cur |-> s.cur + 1,
      bp  |-> s.bp + W(c),
      acc |-> IF push THEN Append(s.acc, <<kind, s.ss, endPos, s.bs, byteEnd>>) ELSE s.acc]

TokInit == [st |-> <<"Text">>, bs |-> 0, ss |-> 0, cur |-> 0, bp |-> 0, acc |-> <<>>]

RECURSIVE TokFold(_, _, _, _, _)
TokFold(t, i, s, ds, de) == IF i > Len(t) THEN s ELSE TokFold(t, i + 1, TokStep(s, t[i], ds, de), ds, de)

\* the flush with the pseudo character ' ' and the additional token
Flush(t, s, ds, de) ==
  IF Len(t) = 0 THEN s.acc
  ELSE LET g == GetState(SP, ds, de, s.st)
           kind == IF g[1] = -1 THEN 0 ELSE g[1]
       IN Append(s.acc, <<kind, s.ss, s.cur, s.bs, s.bp>>)

\* the final pass merging adjacent text tokens
RECURSIVE MergeText(_, _, _)
MergeText(tk, i, acc) ==
  IF i > Len(tk) THEN acc
  ELSE IF acc # <<>> /\ acc[Len(acc)][1] = 0 /\ tk[i][1] = 0
       THEN MergeText(tk, i + 1, [acc EXCEPT ![Len(acc)] = <<0, @[2], tk[i][3], @[4], tk[i][5]>>])
       ELSE MergeText(tk, i + 1, Append(acc, tk[i]))

ImplTokens(t, ds, de) == MergeText(Flush(t, TokFold(t, 1, TokInit, ds, de), ds, de), 1, <<>>)
=============================================================================
