------------------------------- MODULE Spell -------------------------------
(***************************************************************************)
(* Respelling of a document to other delimiters and tag names (C18), and   *)
(* the side conditions of C18 / C19 on where delimiter strings may occur.  *)
(* A spelling is a record with fields ds, de, tl, rm.                      *)
(***************************************************************************)
EXTENDS Tags, Grammar

RenameName(n, c1, c2) ==
  IF n = c1.tl THEN c2.tl ELSE IF n = c1.rm THEN c2.rm
  ELSE IF n = <<SLASH>> \o c1.tl THEN <<SLASH>> \o c2.tl
  ELSE IF n = <<SLASH>> \o c1.rm THEN <<SLASH>> \o c2.rm ELSE n

RespellTag(tag, c1, c2) ==
  LET body == TagBody(tag, c1.ds, c1.de)
      i == SkipSet(body, 1, {SP})
      e == WordEnd(body, i)
  IN c2.ds \o SubSeq(body, 1, i - 1) \o RenameName(SubSeq(body, i, e - 1), c1, c2) \o SubSeq(body, e, Len(body)) \o c2.de

Respell(t, c1, c2) ==
  LET tk == RefTokens(t, c1.ds, c1.de) IN
  ConcatAll([i \in 1..Len(tk) |-> IF tk[i].k = 0 THEN Slice(t, tk[i].s, tk[i].e)
                                    ELSE RespellTag(Slice(t, tk[i].s, tk[i].e), c1, c2)])

\* the delimiter strings of both spellings occur nowhere but as the delimiters of tags, and the respelled
\* document has, token by token, the structure of the original
CleanlySpelled(t, c1, c2) ==
  LET tk == RefTokens(t, c1.ds, c1.de)
      t2 == Respell(t, c1, c2)
      tk2 == RefTokens(t2, c2.ds, c2.de)
      Piece(tx, k, c) == IF k.k = 0 THEN Slice(tx, k.s, k.e) ELSE TagBody(Slice(tx, k.s, k.e), c.ds, c.de)
  IN /\ \A i \in 1..Len(tk) : \A dl \in {c1.ds, c1.de, c2.ds, c2.de} : ~Occurs(Piece(t, tk[i], c1), dl)
     /\ Len(tk2) = Len(tk)
     /\ \A i \in 1..Len(tk) :
          /\ tk2[i].k = tk[i].k
          /\ tk[i].k = 0 => Piece(t2, tk2[i], c2) = Piece(t, tk[i], c1)
          /\ tk[i].k = 1 => Slice(t2, tk2[i].s, tk2[i].e) = RespellTag(Slice(t, tk[i].s, tk[i].e), c1, c2)

DelimsOnlyInTags(t, c) ==
  LET tk == RefTokens(t, c.ds, c.de) IN
  \A i \in 1..Len(tk) : tk[i].k = 0 => LET x == Slice(t, tk[i].s, tk[i].e) IN ~Occurs(x, c.ds) /\ ~Occurs(x, c.de)

=============================================================================
