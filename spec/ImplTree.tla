------------------------------ MODULE ImplTree ------------------------------
(***************************************************************************)
(* Layer I: transcription of chiritori/src/parser.rs - the recursive       *)
(* descent `tree` with its three outcomes per token:                       *)
(*   Closed   a tag named /n whose stripped name equals the name of an     *)
(*            open ancestor ends the current level;                        *)
(*   Hoisted  the level that receives a closer not meant for it demotes    *)
(*            its opener to text, hands its children to the parent and     *)
(*            passes the closer on;                                        *)
(*   Content  everything else (text, unparsable tags, unclosed openers     *)
(*            with their children).                                        *)
(* tg[i] = [k, st, name]: token kind, parse status of ImplAttr ("ok" /     *)
(* "none") and parsed name.  A node is [el, tok, close, kids].             *)
(***************************************************************************)
EXTENDS Text

C_SLASH == 47

RECURSIVE TrimSlashes(_)
TrimSlashes(n) == IF n # <<>> /\ n[1] = C_SLASH THEN TrimSlashes(Tail(n)) ELSE n

TxtNode(i)         == [el |-> FALSE, tok |-> i, close |-> 0, kids |-> <<>>]
ElNode(i, c, kids) == [el |-> TRUE, tok |-> i, close |-> c, kids |-> kids]

\* result: [cur |-> next cursor, parts |-> nodes of this level, end |-> index of the closer handed up, 0 = none]
RECURSIVE TreeRec(_, _, _)
TreeRec(tg, cursor, parents) ==
  IF cursor > Len(tg) THEN [cur |-> cursor, parts |-> <<>>, end |-> 0]
  ELSE LET t == tg[cursor] IN
       IF t.k = 1 /\ t.st = "ok" THEN
            IF /\ t.name # <<>> /\ t.name[1] = C_SLASH
               /\ \E p \in 1..Len(parents) : parents[p] = TrimSlashes(t.name)
            THEN [cur |-> cursor + 1, parts |-> <<>>, end |-> cursor]                               \* Closed
            ELSE LET sub == TreeRec(tg, cursor + 1, Append(parents, t.name)) IN
                 IF sub.end # 0 THEN
                      IF t.name = TrimSlashes(tg[sub.end].name)
                      THEN LET rest == TreeRec(tg, sub.cur, parents) IN                             \* Content(Element)
                           [cur |-> rest.cur, parts |-> <<ElNode(cursor, sub.end, sub.parts)>> \o rest.parts, end |-> rest.end]
                      ELSE [cur |-> sub.cur, parts |-> <<TxtNode(cursor)>> \o sub.parts, end |-> sub.end]   \* Hoisted
                 ELSE [cur |-> sub.cur, parts |-> <<TxtNode(cursor)>> \o sub.parts, end |-> 0]      \* unclosed opener
       ELSE LET rest == TreeRec(tg, cursor + 1, parents) IN
            [cur |-> rest.cur, parts |-> <<TxtNode(cursor)>> \o rest.parts, end |-> rest.end]

ImplTree(tg) == TreeRec(tg, 1, <<>>).parts

\* pre-order rows <<is_element, depth, open token index, close token index or 0>>
RECURSIVE TreeRows(_, _)
TreeRows(parts, depth) ==
  IF parts = <<>> THEN <<>>
  ELSE LET n == parts[1] IN
       (IF n.el THEN <<<<1, depth, n.tok, n.close>>>> \o TreeRows(n.kids, depth + 1) ELSE <<<<0, depth, n.tok, 0>>>>)
       \o TreeRows(Tail(parts), depth)

ImplPairs(tg) == LET rows == TreeRows(ImplTree(tg), 0) IN {<<rows[i][3], rows[i][4]>> : i \in {j \in 1..Len(rows) : rows[j][1] = 1}}
=============================================================================
