----------------------------- MODULE GenTargets -----------------------------
(***************************************************************************)
(* G_targets (C06): target sets over a name pool (prefixes, superstrings,  *)
(* case variants, the empty string, strings that occur as option defaults) *)
(* x a probe document with one element per pool name, skip in every        *)
(* position, skip inside quoted values, unregistered tag names.  The       *)
(* target set grows element by element (AddTarget).                        *)
(***************************************************************************)
EXTENDS GenBase, FiniteSets

CONSTANTS Pool,      \* sequence of names
          MaxSize    \* maximal size of a target set

VARIABLE ts          \* sequence of pool indices, strictly ascending: the target set

Init == ts = <<>>
Next == /\ Len(ts) < MaxSize
        /\ \E i \in DOMAIN Pool : (IF ts = <<>> THEN TRUE ELSE i > ts[Len(ts)]) /\ ts' = Append(ts, i)

Q == <<39>>
DQ == <<34>>
Str_name == <<32, 110, 97, 109, 101, 61>>     \* " name="
Str_skip == <<32, 115, 107, 105, 112>>        \* " skip"
Elem(open) == DS \o open \o DE \o <<120>> \o DS \o <<47>> \o RM \o DE \o <<NL>>
ElemNamed(nm, open) == DS \o open \o DE \o <<120>> \o DS \o <<47>> \o nm \o DE \o <<NL>>

\* the element <RM name='A'>w</RM> on lines of its own inside a wrapper element opened by `open` and closed by /nm
Wrapped(open, nm) == DS \o open \o DE \o <<NL, 119, NL>> \o DS \o RM \o Str_name \o Q \o Pool[2] \o Q \o DE \o <<118>> \o DS \o <<47>> \o RM \o DE
                     \o <<NL, 117, NL>> \o DS \o <<47>> \o nm \o DE \o <<NL>>

RECURSIVE PoolElems(_)
PoolElems(i) == IF i > Len(Pool) THEN <<>>
                ELSE Elem(RM \o Str_name \o Q \o Pool[i] \o Q) \o PoolElems(i + 1)

A == Pool[2]    \* a name that is in most target sets
ProbeDoc ==
  PoolElems(1)
  \o Elem(RM \o Str_skip \o Str_name \o Q \o A \o Q)                                  \* skip first
  \o Elem(RM \o Str_name \o Q \o A \o Q \o Str_skip)                                  \* skip last
  \o Elem(RM \o <<32, 99, 61>> \o Q \o <<120>> \o Q \o Str_skip \o Str_name \o Q \o A \o Q)   \* skip in the middle
  \o Elem(RM \o Str_name \o Q \o A \o Q \o Str_skip \o <<61>> \o Q \o <<121>> \o Q)   \* skip='y'
  \o Elem(RM \o Str_name \o Q \o A \o Q \o <<32, 99, 61>> \o Q \o <<115, 107, 105, 112>> \o Q)          \* c='skip' : no effect
  \o Elem(RM \o Str_name \o Q \o A \o Q \o <<32, 99, 61>> \o DQ \o <<97, 32, 115, 107, 105, 112, 32, 98>> \o DQ)   \* c="a skip b"
  \o Elem(RM \o Str_name \o DQ \o A \o DQ)                                            \* double quotes
  \* the other quote character inside a quoted value is an ordinary character
  \o Elem(RM \o Str_name \o Q \o A \o Q \o <<32, 99, 61>> \o DQ \o <<100, 111, 110>> \o Q \o <<116, 32, 115, 107, 105, 112, 32, 98>> \o DQ)   \* c="don't skip b"
  \o Elem(RM \o Str_name \o Q \o A \o Q \o <<32, 99, 61>> \o Q \o <<97, 32>> \o DQ \o <<32, 115, 107, 105, 112, 32>> \o DQ \o <<32, 98>> \o Q)   \* c='a " skip " b'
  \o Elem(RM \o Str_name \o DQ \o A \o Q \o <<115>> \o DQ)                          \* name="<A>'s": not the name A
  \o Elem(RM \o Str_name \o Q \o A \o DQ \o <<32, 122>> \o Q)                       \* name='<A>" z'
  \* skip together with unwrap-block on an element that could be unwrapped
  \o DS \o RM \o Str_name \o Q \o A \o Q \o Str_skip \o <<32, 117, 110, 119, 114, 97, 112, 45, 98, 108, 111, 99, 107>> \o DE
     \o <<NL, 123, NL, 120, NL, 125, NL>> \o DS \o <<47>> \o RM \o DE \o <<NL>>
  \o Elem(RM \o <<32, 110, 97, 109, 101>>)                                            \* name without value
  \o Elem(RM)                                                                          \* no name
  \o ElemNamed(<<120, 120>>, <<120, 120>> \o Str_name \o Q \o A \o Q)                 \* unregistered tag name
  \o ElemNamed(RM \o <<50>>, RM \o <<50>> \o Str_name \o Q \o A \o Q)                 \* registered name + suffix
  \o ElemNamed(TL, TL \o Str_name \o Q \o A \o Q)                                     \* other evaluator's tag
  \* nesting contexts: the decision about an element does not depend on what encloses it (short of a removed parent)
  \o Wrapped(RM \o Str_name \o Q \o A \o Q \o Str_skip, RM)                                \* inside a targeted element marked skip
  \o Wrapped(RM \o Str_skip, RM)                                                           \* inside a skip element without a name
  \o Wrapped(RM \o Str_name \o Q \o <<110, 111, 110, 101>> \o Q, RM)                         \* inside an untargeted element
  \o Wrapped(<<120, 120>> \o Str_skip, <<120, 120>>)                                       \* inside an unregistered element marked skip
  \o Wrapped(TL \o <<32, 116, 111, 61>> \o Q \o <<50, 57, 57, 57, 45, 48, 49, 45, 48, 49, 32, 48, 48, 58, 48, 48, 58, 48, 48>> \o Q \o Str_skip, TL)   \* inside an unexpired time-limited element marked skip

RECURSIVE EvalOps(_)
EvalOps(i) == IF i > Len(Pool) THEN <<>>
              ELSE <<[op |-> "eval_marker", name |-> Pool[i], has |-> TRUE, hv |-> TRUE]>> \o EvalOps(i + 1)

Targets == [k \in 1..Len(ts) |-> Pool[ts[k]]]

EmitAll ==
  EmitRec([id |-> "", src |-> ProbeDoc,
           ops |-> <<[op |-> "config", targets |-> Targets]>> \o EvalOps(1)
                   \o <<[op |-> "eval_marker", name |-> <<>>, has |-> FALSE, hv |-> FALSE],
                        [op |-> "eval_marker", name |-> A, has |-> TRUE, hv |-> FALSE],
                        [op |-> "clean"]>>])
=============================================================================
