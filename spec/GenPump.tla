------------------------------ MODULE GenPump ------------------------------
(***************************************************************************)
(* G_pump: scale.  Every other generator explores small documents          *)
(* exhaustively; thresholds that only count (the 256th open tag, the       *)
(* 100th line number, the 1000th removed region, a byte offset beyond one  *)
(* or two bytes) are reached by pumping: for a unit <<prefix, suffix>>, a  *)
(* core document and a repetition count k the document                     *)
(*        prefix(1) .. prefix(k)  core  suffix(k) .. suffix(1)             *)
(* where the character Hole inside a unit stands for the decimal index of  *)
(* the repetition (lines of code stay pairwise distinct, as the            *)
(* subsequence tests of the properties need them).                         *)
(***************************************************************************)
EXTENDS GenBase

CONSTANTS Units,      \* sequence of <<prefix, suffix>>, each a sequence of characters
          Cores,      \* sequence of core documents
          Ks          \* set of repetition counts

Hole == 1             \* U+0001 inside a unit: replaced by the repetition index

VARIABLE p            \* <<>> or <<unit index, core index, k>>

Init == p = <<>>
Next == p = <<>> /\ \E u \in DOMAIN Units, c \in DOMAIN Cores, k \in Ks : p' = <<u, c, k>>

RECURSIVE Fill(_, _, _)
Fill(s, i, n) == IF i > Len(s) THEN <<>>
                 ELSE (IF s[i] = Hole THEN Digits(n) ELSE <<s[i]>>) \o Fill(s, i + 1, n)

\* prefix(from) .. prefix(to), built by halving (a linear chain of concatenations is quadratic in TLC)
RECURSIVE Up(_, _, _)
Up(s, from, to) == IF from > to THEN <<>>
                   ELSE IF from = to THEN Fill(s, 1, from)
                   ELSE LET mid == (from + to) \div 2 IN Up(s, from, mid) \o Up(s, mid + 1, to)
\* suffix(hi) .. suffix(lo)
RECURSIVE DownR(_, _, _)
DownR(s, hi, lo) == IF hi < lo THEN <<>>
                    ELSE IF hi = lo THEN Fill(s, 1, hi)
                    ELSE LET mid == (hi + lo) \div 2 IN DownR(s, hi, mid + 1) \o DownR(s, mid, lo)
Down(s, k) == DownR(s, k, 1)

Doc == Up(Units[p[1]][1], 1, p[3]) \o Cores[p[2]] \o Down(Units[p[1]][2], p[3])
EmitAll == p # <<>> => Emit(ToString(p), Doc)
=============================================================================
