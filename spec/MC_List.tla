------------------------------- MODULE MC_List -------------------------------
(***************************************************************************)
(* Model checking of the listing layer without running any code: on every  *)
(* document of the line generator in C15's / C16's space the transcribed   *)
(* list and list_all (Impl!ImplMarkersAll + ImplList!ImplItems) report the *)
(* reference regions with the reference line ranges, statuses and          *)
(* rendering (C15, C16, C17).                                              *)
(***************************************************************************)
EXTENDS GenLines, Impl, ImplList, Listing

ListSatisfiesR ==
  Complete =>
    LET t == GenDoc \o <<NL>>
        c == [ds |-> DS, de |-> DE, tl |-> TL, rm |-> RM, off |-> OFF, now |-> NOW, targets |-> SeqToSet(TARGETS)]
        d == Doc(t, c)
        ml == ImplMarkersAll(t, c, FALSE)
        ma == ImplMarkersAll(t, c, TRUE)
        il == ImplItems(t, ml.rows)
        ia == ImplItems(t, ma.rows)
        rr == ReadyRegions(d)
        ar == AllRegions(d)
    IN (~d.lenient /\ ~ml.unknown /\ C16Space(t, d)) =>
         /\ ~ml.crash /\ ~ma.crash
         /\ Len(il) = Len(rr)
         /\ \A k \in 1..Len(rr) :
              /\ il[k].status = "Ready"
              /\ il[k].lr = LineRange(d, rr[k])
              /\ ColumnsDetermined(t, d.br, rr[k]) => il[k].block = RenderItem(t, d.br, rr[k], 9)
         /\ (t[1] # NL) =>
              /\ Len(ia) = Len(ar)
              /\ \A k \in 1..Len(ar) : ia[k].lr = LineRange(d, ar[k][1]) /\ ia[k].status = ar[k][2]
                                        /\ (ColumnsDetermined(t, d.br, ar[k][1]) => ia[k].block = RenderItem(t, d.br, ar[k][1], 9))
=============================================================================
