------------------------------- MODULE Props -------------------------------
(***************************************************************************)
(* The properties C01..C20 as predicates over the state of Chiritori.tla.  *)
(* Each Cxx is what TLC checks as an invariant (Inv_Cxx); every predicate  *)
(* reads only inputs (file, cfg), observed results, and reference values   *)
(* computed from the inputs.                                               *)
(***************************************************************************)
EXTENDS Chiritori, Layout, Listing, Spell

TokK(r)  == r[1]
TokS(r)  == r[2]
TokE(r)  == r[3]
TokBS(r) == r[4]
TokBE(r) == r[5]
TokVL(r) == r[6]

AtTokens == pc \in {"tokenized", "tok_done", "tags_done", "tree_done"}

(***************************************************************************)
(* C01 totality: no behaviour of the specification contains a panic.       *)
(***************************************************************************)
\* a process run of the command on a readable source with well-formed options ends normally too: exit status 0 (a panic
\* ends the process with 101, an abort with a signal) and a standard output that is valid UTF-8
C01_Cli == (pc = "cli_done" /\ res.odd = "") => (res.exit = 0 /\ res.stdout_utf8)
C01 == pc # "crashed" /\ pc # "failed" /\ C01_Cli

(***************************************************************************)
(* C07 lossless partition with consistent offsets.                         *)
(***************************************************************************)
C07_Partition(t, tk) ==
  /\ (Len(t) > 0) => Len(tk) > 0
  /\ Len(tk) > 0 => TokS(tk[1]) = 0 /\ TokE(tk[Len(tk)]) = Len(t)
  /\ \A i \in 1..Len(tk) : TokS(tk[i]) < TokE(tk[i])
  /\ \A i \in 1..(Len(tk) - 1) : TokS(tk[i + 1]) = TokE(tk[i])

C07_Bytes(t, tk) ==
  LET bp == BytePos(t) IN
  \A i \in 1..Len(tk) :
     /\ TokS(tk[i]) >= 0 /\ TokE(tk[i]) <= Len(t)
     /\ TokBS(tk[i]) = bp[TokS(tk[i]) + 1]
     /\ TokBE(tk[i]) = bp[TokE(tk[i]) + 1]
     /\ TokVL(tk[i]) = TokBE(tk[i]) - TokBS(tk[i])

C07_Delims(t, tk, ds, de) ==
  \A i \in 1..Len(tk) :
     TokK(tk[i]) = 1 =>
        LET v == Slice(t, TokS(tk[i]), TokE(tk[i])) IN HasPrefix(v, ds) /\ HasSuffix(v, de)

C07_NoAdjacentText(tk) == \A i \in 1..(Len(tk) - 1) : ~(TokK(tk[i]) = 0 /\ TokK(tk[i + 1]) = 0)

C07_Values(t, tk, vl) ==
  vl # <<>> => /\ Len(vl) = Len(tk)
               /\ \A i \in 1..Len(tk) : vl[i] = Slice(t, TokS(tk[i]), TokE(tk[i]))
               /\ ConcatAll(vl) = t

C07 == AtTokens =>
  /\ C07_Partition(file, toks)
  /\ C07_Bytes(file, toks)
  /\ C07_Delims(file, toks, cfg.ds, cfg.de)
  /\ C07_NoAdjacentText(toks)
  /\ C07_Values(file, toks, vals)

(***************************************************************************)
(* C08 leftmost-shortest recognition: tag tokens = RefSpans.               *)
(***************************************************************************)
TagSpansOf(tk) == LET sel == SelectSeq(tk, LAMBDA r : TokK(r) = 1) IN [i \in 1..Len(sel) |-> <<TokS(sel[i]), TokE(sel[i])>>]

C08 == AtTokens => TagSpansOf(toks) = RefSpans(file, cfg.ds, cfg.de)

(***************************************************************************)
(* Common: the reference view of the current file under the current        *)
(* configuration, and the observation points.                              *)
(***************************************************************************)
D == Doc(file, cfg)

AtCleanReturn == pc = "returned" /\ op \in CleanOps
AtListReturn  == pc = "returned" /\ op \in ListOps

\* the source the last operation ran on (commit overwrites `file` with its result)
LastSrc == hist[Len(hist)].src
DL == Doc(LastSrc, cfg)

Permitted(d) == UNION {PermittedOf(e) : e \in ReadyElems(d)}
Required(d)  == UNION {RequiredOf(e) : e \in ReadyElems(d)}

(***************************************************************************)
(* C02 no over-removal, C03 no under-removal, C04 no-op identity.          *)
(***************************************************************************)
C02_On(t, d, o) ==
  ~d.lenient => /\ IsSubseq(o, t)
                /\ IsSubseq(NonWs(Without(t, Permitted(d))), NonWs(o))

C03_On(t, d, o) ==
  ~d.lenient => IsSubseq(NonWs(o), NonWs(Without(t, Required(d))))

C04_On(t, d, o) ==
  (~d.lenient /\ ReadyElems(d) = {}) => o = t

\* A property that says what the result of an operation is, is violated when there is no result: the operation
\* panicked or failed on a document of the property's space (`file` is still the source then, `op` the operation).
NoResult == pc \in {"crashed", "failed"}
Demanded(ops, space) == (NoResult /\ op \in ops) => ~space
CleanDemanded == Demanded(CleanOps, ~D.lenient)

C02 == (AtCleanReturn => LET dl == DL IN C02_On(LastSrc, dl, out)) /\ CleanDemanded
C03 == (AtCleanReturn => LET dl == DL IN C03_On(LastSrc, dl, out)) /\ CleanDemanded
C04 == (AtCleanReturn => LET dl == DL IN C04_On(LastSrc, dl, out)) /\ Demanded(CleanOps, ~D.lenient /\ ReadyElems(D) = {})

Decisions_On(t, d, o) == C02_On(t, d, o) /\ C03_On(t, d, o) /\ C04_On(t, d, o)

(***************************************************************************)
(* C05 expiry decision, C06 marker / skip decision.                        *)
(***************************************************************************)
EvalElem(nm, attrName) ==
  [name |-> nm, attrs |-> IF res.has THEN <<[n |-> attrName, hv |-> res.hv, v |-> IF attrName = Str_to THEN res.to ELSE res.name]>> ELSE <<>>]

C05_Eval ==
  (pc = "eval_done" /\ op = "eval_time") =>
     LET dec == TimeDecision(EvalElem(cfg.tl, Str_to), cfg) IN
     /\ dec = "ready" => res.ready
     /\ dec = "pending" => ~res.ready

\* for a fixed source the removed set only grows as the clock advances
C05_Mono ==
  AtCleanReturn =>
     \A i \in 1..(Len(hist) - 1) :
        LET h == hist[i] IN
        (h.op \in CleanOps /\ h.src = LastSrc /\ SameSpelling(h.cfg, cfg) /\ h.cfg.targets = cfg.targets
         /\ LaterOrEqual(cfg.now, h.cfg.now)) => IsSubseq(NonWs(out), NonWs(h.out))

C05 == C05_Eval /\ C05_Mono /\ (AtCleanReturn => LET dl == DL IN Decisions_On(LastSrc, dl, out))

C06_Eval ==
  (pc = "eval_done" /\ op = "eval_marker") =>
     LET dec == MarkerDecision(EvalElem(cfg.rm, Str_name), cfg) IN
     /\ dec = "ready" => res.ready
     /\ dec = "pending" => ~res.ready

(***************************************************************************)
(* The command line (C20, and the CLI part of C06): a process run yields   *)
(* the library result for the configuration its options denote.            *)
(***************************************************************************)
Def_DS == <<60, 33, 45, 45, 32, 60>>                 \* <!-- <
Def_DE == <<62, 32, 45, 45, 62>>                     \* > -->
Def_TL == <<116, 105, 109, 101, 45, 108, 105, 109, 105, 116, 101, 100>>
Def_RM == <<114, 101, 109, 111, 118, 97, 108, 45, 109, 97, 114, 107, 101, 114>>
Def_OFF == <<43, 48, 48, 58, 48, 48>>

Omitted(r, k) == \E i \in 1..Len(r.omit) : r.omit[i] = k

\* the configuration denoted by the options of run r is the current configuration
CfgOfOpts(r, c) ==
  /\ Omitted(r, "ds") => c.ds = Def_DS
  /\ Omitted(r, "de") => c.de = Def_DE
  /\ Omitted(r, "tl") => c.tl = Def_TL
  /\ Omitted(r, "rm") => c.rm = Def_RM
  /\ Omitted(r, "off") => c.off = Def_OFF
  /\ c.targets = (IF r.via \in {"file", "both"} THEN SeqToSet(r.file_targets) ELSE {})
                 \cup (IF r.via \in {"flags", "both"} THEN SeqToSet(r.flag_targets) ELSE {})

LibOpOf(r) == IF r.mode = "clean" THEN "clean"
              ELSE IF r.mode = "list" THEN (IF r.json THEN "list_json" ELSE "list")
              ELSE (IF r.json THEN "list_all_json" ELSE "list_all")

Payload(r) == IF r.output = "stdout" THEN r.stdout ELSE IF r.output = "file" THEN r.outfile ELSE r.infile_after

CliFaithful ==
  pc = "cli_done" =>
     LET r == res
         me == hist[Len(hist)]
     IN (r.cur_given /\ r.odd = "" /\ CfgOfOpts(r, cfg)) =>
          /\ r.exit = 0
          /\ r.stdout_utf8
          /\ (r.output = "file") => r.has_outfile
          /\ (r.input = "file" /\ r.output # "same") => (r.has_infile /\ r.infile_after = me.src)
          /\ \A i \in 1..(Len(hist) - 1) :
                LET h == hist[i] IN
                (h.op = LibOpOf(r) /\ h.src = me.src /\ h.cfg = cfg) => Payload(r) = h.out

C20 == CliFaithful

\* the same through the command: a process run in clean mode on a source without a ready element writes the source back
C04_Cli ==
  (pc = "cli_done" /\ res.odd = "" /\ res.mode = "clean" /\ res.cur_given /\ CfgOfOpts(res, cfg)) =>
     LET me == hist[Len(hist)]
         d == Doc(me.src, cfg)
     IN (~d.lenient /\ ReadyElems(d) = {}) => (res.exit = 0 /\ Payload(res) = me.src)
C06 == C06_Eval /\ CliFaithful /\ (AtCleanReturn => LET dl == DL IN Decisions_On(LastSrc, dl, out))

(***************************************************************************)
(* C09 tag grammar: recorded parse = reference parse for tags inside the   *)
(* grammar; definite non-tags are not parsed.                              *)
(***************************************************************************)
AttrsAgree(obs, ref) ==
  /\ Len(obs) = Len(ref)
  /\ \A i \in 1..Len(ref) : obs[i].n = ref[i].n /\ obs[i].hv = ref[i].hv /\ (ref[i].hv => obs[i].v = ref[i].v)

C09_Parse ==
  pc = "tags_done" =>
     \A i \in 1..Len(tags) :
        LET g == tags[i]
            p == RefParse(TagBody(g.text, cfg.ds, cfg.de), cfg.ds, cfg.de)
        IN /\ g.st # "panic"
           /\ p.cls = "ok" => (g.st = "ok" /\ g.name = p.name /\ AttrsAgree(g.attrs, p.attrs))
           /\ p.cls = "text" => g.st = "none"

\* "parses to exactly that name and those attributes" presupposes that the tag is found as ONE tag token with the
\* reference extent: the tag tokens the parse ran on are those of the reference scan (what C08 demands of tokenize)
C09_Tokens == pc = "tags_done" => TagSpansOf(toks) = RefSpans(file, cfg.ds, cfg.de)

C09 == C09_Parse /\ C09_Tokens /\ (AtCleanReturn => LET dl == DL IN Decisions_On(LastSrc, dl, out))

(***************************************************************************)
(* C10 pairing with stack discipline, every token once and in order.       *)
(***************************************************************************)
TokIdxOfBS(tk, bs) == LET S == {i \in 1..Len(tk) : TokBS(tk[i]) = bs} IN IF S = {} THEN 0 ELSE CHOOSE i \in S : TRUE

\* tag descriptors from the recorded tokens (C10 is relative to the tokens the code produced)
ObsTagDescs(t, tk, ds, de) ==
  [i \in 1..Len(tk) |->
     IF TokK(tk[i]) = 0 THEN [k |-> 0, cls |-> "text", name |-> <<>>, attrs |-> <<>>]
     ELSE LET p == RefParse(TagBody(Slice(t, TokS(tk[i]), TokE(tk[i])), ds, de), ds, de)
          IN [k |-> 1, cls |-> p.cls, name |-> p.name, attrs |-> p.attrs]]

RECURSIVE PopClosers(_, _, _)
PopClosers(stack, depth, acc) ==      \* returns <<stack, acc>> after popping the frames at depth >= depth
  IF stack # <<>> /\ stack[Len(stack)][1] >= depth
  THEN PopClosers(SubSeq(stack, 1, Len(stack) - 1), depth, Append(acc, stack[Len(stack)][2]))
  ELSE <<stack, acc>>

RECURSIVE FlattenRows(_, _, _, _)
FlattenRows(rows, i, stack, acc) ==
  IF i > Len(rows) THEN PopClosers(stack, 0, acc)[2]
  ELSE LET r == rows[i]
           pa == PopClosers(stack, r[2], acc)
           st2 == IF r[1] = 1 THEN Append(pa[1], <<r[2], r[4]>>) ELSE pa[1]
       IN FlattenRows(rows, i + 1, st2, Append(pa[2], r[3]))

C10_On(t, tk, rows, ds, de) ==
  LET tg == ObsTagDescs(t, tk, ds, de)
      odd == \E i \in 1..Len(tg) : tg[i].cls = "lenient" \/ (tg[i].cls = "ok" /\ OddName(tg[i].name))
      obsPairs == {<<TokIdxOfBS(tk, rows[i][3]), TokIdxOfBS(tk, rows[i][4])>> : i \in {j \in 1..Len(rows) : rows[j][1] = 1}}
      refPairs == StackPairs(tg)
  IN /\ FlattenRows(rows, 1, <<>>, <<>>) = [i \in 1..Len(tk) |-> TokBS(tk[i])]
     /\ ~odd => /\ obsPairs = refPairs
                /\ \A i \in 1..Len(rows) : rows[i][2] = Depth(refPairs, TokIdxOfBS(tk, rows[i][3]))

C10 == pc \in {"tree_done", "treed"} => C10_On(file, toks, tree, cfg.ds, cfg.de)

(***************************************************************************)
(* C11 - C14 layout.                                                       *)
(***************************************************************************)
HasReadyUnwrap(d) == UnwrappedElems(d) # {}

C11_On(t, d, o) ==
  (~d.lenient /\ BlockStyle(d) /\ WrapperLinesClean(t, d)) => LineIntegrity(t, d, o, FALSE) /\ UntouchedBlocks(t, d, o)
C12_On(t, d, o) ==
  (~d.lenient /\ BlockStyle(d) /\ WrapperLinesClean(t, d) /\ RegularNesting(t, d)) => Dedent(t, d, o)
C13_On(t, d, o) ==
  (~d.lenient /\ BlockStyle(d) /\ ~HasReadyUnwrap(d)) => LineIntegrity(t, d, o, TRUE) /\ BlankResidue(t, d, o)
C14_On(t, d, o) ==
  (~d.lenient /\ \A e \in UnwrappedElems(d) : e.alone) => Locality(t, d, o)

C11 == (AtCleanReturn => LET dl == DL IN C11_On(LastSrc, dl, out)) /\ Demanded(CleanOps, ~D.lenient /\ BlockStyle(D) /\ WrapperLinesClean(file, D))
C12 == (AtCleanReturn => LET dl == DL IN C12_On(LastSrc, dl, out))
       /\ Demanded(CleanOps, ~D.lenient /\ BlockStyle(D) /\ WrapperLinesClean(file, D) /\ RegularNesting(file, D))
C13 == (AtCleanReturn => LET dl == DL IN C13_On(LastSrc, dl, out)) /\ Demanded(CleanOps, ~D.lenient /\ BlockStyle(D) /\ ~HasReadyUnwrap(D))
C14 == (AtCleanReturn => LET dl == DL IN C14_On(LastSrc, dl, out)) /\ Demanded(CleanOps, ~D.lenient /\ \A e \in UnwrappedElems(D) : e.alone)

(***************************************************************************)
(* C15 - C17 listing.                                                      *)
(***************************************************************************)
MarkRanges(t, mk) == LET bp == BytePos(t) IN [i \in 1..Len(mk) |-> <<CharOfByte(bp, mk[i][1]), CharOfByte(bp, mk[i][2])>>]

IsJsonOp(o) == o \in {"list_json", "list_all_json"}
ReadyItems(its) == SelectSeq(its, LAMBDA it : it.status = "Ready")

C15 ==
  /\ Demanded({"list", "list_json"}, ~D.lenient /\ C15Space(file, D))
  /\ (AtListReturn /\ op \in {"list", "list_json"}) =>
   LET DD == D IN
   (~DD.lenient /\ C15Space(file, DD)) =>
     LET regs == ReadyRegions(DD) IN
     /\ Len(items) = Len(regs)
     /\ \A k \in 1..Len(items) : items[k].status = "Ready"
     /\ op = "list_json" => (res.json_ok /\ \A k \in 1..Len(regs) : items[k].lr = LineRange(DD, regs[k]))
     /\ op = "list" => (\A k \in 1..Len(regs) :
                            (\A i \in 1..Len(file) : file[i] # CR) =>
                               Highlighted(items[k].raw) = ExpandTabs(Slice(file, regs[k][1], regs[k][2])))
     \* the regions are the ones clean deletes (markers observed inside clean on the same input)
     /\ \A i \in 1..(Len(hist) - 1) :
          LET h == hist[i] IN
          /\ (h.op \in CleanOps /\ h.src = file /\ h.cfg = cfg) => MarkRanges(file, h.marks) = regs
          /\ (h.op = op /\ h.src = file /\ h.cfg = cfg) => h.out = out          \* listing is a pure function

C16 ==
  /\ Demanded(ListOps, ~D.lenient /\ C16Space(file, D))
  /\ AtListReturn =>
   LET DD == D IN
   (~DD.lenient /\ C16Space(file, DD) /\ \A i \in 1..Len(file) : file[i] # CR) =>
     LET rr == ReadyRegions(DD)
         regs == IF op \in {"list", "list_json"}
                 THEN [k \in 1..Len(rr) |-> <<rr[k], "Ready">>]
                 ELSE AllRegions(DD)
         w == IF items = <<>> THEN 0 ELSE ObservedWidth(items[1].block)
     IN /\ IsJsonOp(op) =>
            /\ res.json_ok
            /\ items # <<>> => w >= 3
            /\ Len(items) = Len(regs) =>
                 \A k \in 1..Len(regs) :
                    LET want == RenderItem(file, DD.br, regs[k][1], w) IN
                    /\ items[k].lr = LineRange(DD, regs[k][1])
                    /\ IF ColumnsDetermined(file, DD.br, regs[k][1])
                       THEN items[k].block = want
                       ELSE MiddleOf(items[k].block) = MiddleOf(want)
        /\ ~IsJsonOp(op) =>
            \* pretty form with colour codes stripped = JSON form, item by item
            /\ \A i \in 1..(Len(hist) - 1) :
                 LET h == hist[i] IN
                 (h.src = file /\ h.cfg = cfg /\ ((op = "list" /\ h.op = "list_json") \/ (op = "list_all" /\ h.op = "list_all_json"))) =>
                    /\ Len(items) = Len(h.items)
                    /\ \A k \in 1..Len(items) : items[k].block = h.items[k].block /\ items[k].status = h.items[k].status

\* sources with carriage returns: the property does not say whether a lone CR ends a "source line"; what holds under every
\* reading is that an item shows as many numbered rows as its line range has lines, numbered consecutively from the first
C16_CR ==
  (AtListReturn /\ IsJsonOp(op) /\ \E i \in 1..Len(file) : file[i] = CR) =>
     LET DD == D IN
     (~DD.lenient /\ C16Space(file, DD) /\ res.json_ok /\ items # <<>>) =>
        LET w == ObservedWidth(items[1].block) IN
        w >= 3 /\ \A k \in 1..Len(items) : RowsConsistent(items[k].block, items[k].lr, w)

C17 ==
  /\ Demanded({"list_all", "list_all_json"}, ~D.lenient /\ C15Space(file, D))
  /\ (AtListReturn /\ op = "list_all_json") =>
   LET DD == D IN
   (~DD.lenient /\ C15Space(file, DD)) =>
     LET regs == AllRegions(DD) IN
     /\ res.json_ok
     /\ Len(items) = Len(regs)
     /\ \A k \in 1..Len(regs) : items[k].lr = LineRange(DD, regs[k][1]) /\ items[k].status = regs[k][2]
     \* Ready part identical to the plain list
     /\ \A i \in 1..(Len(hist) - 1) :
          LET h == hist[i] IN
          (h.op = "list_json" /\ h.src = file /\ h.cfg = cfg) =>
             LET ri == ReadyItems(items) IN
             Len(ri) = Len(h.items) /\ \A k \in 1..Len(ri) : ri[k].lr = h.items[k].lr /\ ri[k].block = h.items[k].block

(***************************************************************************)
(* C18 spelling independence.                                              *)
(***************************************************************************)
C18 ==
  (pc = "returned" /\ op \in {"clean", "list_json"}) =>
     \A i \in 1..(Len(hist) - 1) :
        LET h == hist[i] IN
        (h.op = op /\ h.cfg.now = cfg.now /\ h.cfg.targets = cfg.targets /\ h.cfg.off = cfg.off
         /\ CleanlySpelled(h.src, h.cfg, cfg) /\ Respell(h.src, h.cfg, cfg) = LastSrc) =>
           IF op = "clean" THEN out = Respell(h.out, h.cfg, cfg)
           ELSE /\ Len(items) = Len(h.items)
                /\ \A k \in 1..Len(items) : items[k].lr = h.items[k].lr /\ items[k].status = h.items[k].status

\* the same through the command line: a process run whose options denote the respelled configuration, on the respelled
\* source, yields the respelled result of the earlier (library or process) run under the other spelling
C18_Cli ==
  (pc = "cli_done" /\ res.cur_given /\ res.odd = "" /\ CfgOfOpts(res, cfg)) =>
     LET me == hist[Len(hist)] IN
     \A i \in 1..(Len(hist) - 1) :
        LET h == hist[i] IN
        (h.cfg.now = cfg.now /\ h.cfg.targets = cfg.targets /\ h.cfg.off = cfg.off
         /\ CleanlySpelled(h.src, h.cfg, cfg) /\ Respell(h.src, h.cfg, cfg) = me.src) =>
           /\ (h.op = "clean" /\ res.mode = "clean") => (res.exit = 0 /\ Payload(res) = Respell(h.out, h.cfg, cfg))
           /\ (h.op = "list_json" /\ res.mode = "list" /\ res.json) =>
                 /\ res.exit = 0 /\ res.payload_json_ok
                 /\ Len(res.payload_items) = Len(h.items)
                 /\ \A k \in 1..Len(h.items) : res.payload_items[k].lr = h.items[k].lr /\ res.payload_items[k].status = h.items[k].status

(***************************************************************************)
(* C19 idempotence and composition over time.                              *)
(***************************************************************************)
Commits == SelectSeq(hist, LAMBDA h : h.op = "commit")

\* the commits so far form one chain: each ran on the previous result, clock and targets only grew
Chained(cs) ==
  \A k \in 1..(Len(cs) - 1) :
     /\ cs[k + 1].src = cs[k].out
     /\ SameSpelling(cs[k].cfg, cs[k + 1].cfg)
     /\ ClockOnlyAdvances(cs[k].cfg, cs[k + 1].cfg) /\ TargetsOnlyGrow(cs[k].cfg, cs[k + 1].cfg)

C19_Idem ==
  (pc = "returned" /\ op = "clean" /\ Len(hist) >= 2) =>
        LET h == hist[Len(hist) - 1] IN
        (h.op = "commit" /\ h.cfg = cfg /\ h.out = LastSrc /\ DelimsOnlyInTags(h.src, cfg) /\ ~Doc(h.src, cfg).lenient)
           => out = LastSrc                                                              \* idempotence

C19_CompSpace ==
  LET cs == Commits IN
  /\ pc = "returned" /\ op = "commit"
  /\ Chained(cs) /\ DelimsOnlyInTags(cs[1].src, cfg) /\ ~Doc(cs[1].src, cfg).lenient
  /\ \/ WrapperLinesNeverTagged(cs[1].src, Doc(cs[1].src, cfg))
     \/ WrapperLinesTolerable(cs[1].src, Doc(cs[1].src, cfg), {Doc(cs[1].src, cs[k].cfg) : k \in 1..Len(cs)})

C19_Comp ==
  C19_CompSpace =>
     \A i \in 1..Len(hist) :
        LET h == hist[i] IN
        (h.op = "clean" /\ h.src = Commits[1].src /\ h.cfg = cfg) => NonWs(out) = NonWs(h.out)   \* composition

C19 == C19_Idem /\ C19_Comp

(***************************************************************************)
(* Vacuity guard.  App_Cxx is the antecedent of Cxx: the state is an       *)
(* observation point of the property, the document lies in the property's  *)
(* space (not lenient, right layout) and the case is not trivial (something *)
(* is ready / listed / paired ...).  The checks evaluate App_Cxx with TLC   *)
(* on a sample of every job and report how often it held.                   *)
(***************************************************************************)
App_C01 == pc \in {"returned", "crashed", "failed"}
App_C02 == AtCleanReturn /\ LET dl == DL IN ~dl.lenient /\ ReadyElems(dl) # {}
App_C03 == App_C02
App_C04 == AtCleanReturn /\ LET dl == DL IN ~dl.lenient /\ ReadyElems(dl) = {}
App_C05 == \/ (pc = "eval_done" /\ op = "eval_time" /\ TimeDecision(EvalElem(cfg.tl, Str_to), cfg) # "lenient")
           \/ (AtCleanReturn /\ LET dl == DL IN ~dl.lenient /\ \E e \in dl.elems : e.p.name = cfg.tl)
App_C06 == \/ (pc = "eval_done" /\ op = "eval_marker" /\ MarkerDecision(EvalElem(cfg.rm, Str_name), cfg) # "lenient")
           \/ (AtCleanReturn /\ LET dl == DL IN ~dl.lenient /\ \E e \in dl.elems : e.p.name = cfg.rm)
           \/ (pc = "cli_done" /\ res.cur_given /\ CfgOfOpts(res, cfg))
App_C07 == AtTokens /\ Len(toks) >= 2
App_C08 == AtTokens /\ RefSpans(file, cfg.ds, cfg.de) # <<>>
App_C09 == \/ (pc = "tags_done" /\ \E i \in 1..Len(tags) :
                 LET p == RefParse(TagBody(tags[i].text, cfg.ds, cfg.de), cfg.ds, cfg.de) IN p.cls = "ok" /\ p.attrs # <<>>)
           \/ App_C02
App_C10 == pc \in {"tree_done", "treed"} /\
           LET tg == ObsTagDescs(file, toks, cfg.ds, cfg.de) IN
           (~\E i \in 1..Len(tg) : tg[i].cls = "lenient" \/ (tg[i].cls = "ok" /\ OddName(tg[i].name))) /\ StackPairs(tg) # {}
App_C11 == AtCleanReturn /\ LET dl == DL IN ~dl.lenient /\ BlockStyle(dl) /\ WrapperLinesClean(LastSrc, dl)
           /\ \E e \in dl.elems : e.uw /\ e.st = "ready"
App_C12 == AtCleanReturn /\ LET dl == DL IN ~dl.lenient /\ BlockStyle(dl) /\ WrapperLinesClean(LastSrc, dl) /\ RegularNesting(LastSrc, dl)
           /\ \E u \in UnwrappedElems(dl) : DedentCols(LastSrc, dl, u) # {} /\ InnerLines(u) # {}
App_C13 == AtCleanReturn /\ LET dl == DL IN ~dl.lenient /\ BlockStyle(dl) /\ ~HasReadyUnwrap(dl) /\ ReadyElems(dl) # {}
App_C14 == AtCleanReturn /\ LET dl == DL IN ~dl.lenient /\ ReadyElems(dl) # {} /\ \A e \in UnwrappedElems(dl) : e.alone
App_C15 == AtListReturn /\ op \in {"list", "list_json"} /\ LET dd == D IN ~dd.lenient /\ C15Space(file, dd) /\ ReadyRegions(dd) # <<>>
App_C16 == AtListReturn /\ LET dd == D IN ~dd.lenient /\ C16Space(file, dd) /\ (\A i \in 1..Len(file) : file[i] # CR) /\ AllRegions(dd) # <<>>
App_C17 == AtListReturn /\ op = "list_all_json" /\ LET dd == D IN ~dd.lenient /\ C15Space(file, dd)
           /\ \E k \in 1..Len(AllRegions(dd)) : AllRegions(dd)[k][2] = "Pending"
App_C18 == pc = "returned" /\ op \in {"clean", "list_json"} /\
           \E i \in 1..(Len(hist) - 1) :
              LET h == hist[i] IN
              h.op = op /\ h.cfg.now = cfg.now /\ h.cfg.targets = cfg.targets /\ h.cfg.off = cfg.off
              /\ ~SameSpelling(h.cfg, cfg) /\ CleanlySpelled(h.src, h.cfg, cfg) /\ Respell(h.src, h.cfg, cfg) = LastSrc
              /\ h.out # h.src
App_C19 == C19_CompSpace /\ Len(Commits) >= 2 /\ Commits[1].src # out
           /\ \E i \in 1..Len(hist) : hist[i].op = "clean" /\ hist[i].src = Commits[1].src /\ hist[i].cfg = cfg
App_C20 == pc = "cli_done" /\ res.cur_given /\ res.odd = "" /\ CfgOfOpts(res, cfg)
           /\ \E i \in 1..(Len(hist) - 1) : hist[i].op = LibOpOf(res) /\ hist[i].src = hist[Len(hist)].src /\ hist[i].cfg = cfg
=============================================================================
