------------------------------- MODULE Props -------------------------------
(***************************************************************************)
(* The properties C01..C20 as predicates over the state of Chiritori.tla.  *)
(* Each Cxx is what TLC checks as an invariant (Inv_Cxx); every predicate  *)
(* reads only inputs (file, cfg), observed results, and reference values   *)
(* computed from the inputs.                                               *)
(***************************************************************************)
EXTENDS Chiritori, Tags

TokK(r)  == r[1]
TokS(r)  == r[2]
TokE(r)  == r[3]
TokBS(r) == r[4]
TokBE(r) == r[5]
TokVL(r) == r[6]

AtTokens == pc \in {"tokenized", "tok_done", "tags_done", "tree_done"}

(***************************************************************************)
(* C01 totality: no behaviour of the specification contains a panic.       *)
(***************************************************************************)
C01 == pc # "crashed" /\ pc # "failed"

(***************************************************************************)
(* C07 lossless partition with consistent offsets.                         *)
(***************************************************************************)
C07_Partition(t, tk) ==
  /\ (Len(t) > 0) => Len(tk) > 0
  /\ Len(tk) > 0 => TokS(tk[1]) = 0 /\ TokE(tk[Len(tk)]) = Len(t)
  /\ \A i \in 1..Len(tk) : TokS(tk[i]) < TokE(tk[i])
  /\ \A i \in 1..(Len(tk) - 1) : TokS(tk[i + 1]) = TokE(tk[i])

C07_Bytes(t, tk) ==
  LET bp == BytePos(t) IN
  \A i \in 1..Len(tk) :
     /\ TokS(tk[i]) >= 0 /\ TokE(tk[i]) <= Len(t)
     /\ TokBS(tk[i]) = bp[TokS(tk[i]) + 1]
     /\ TokBE(tk[i]) = bp[TokE(tk[i]) + 1]
     /\ TokVL(tk[i]) = TokBE(tk[i]) - TokBS(tk[i])

C07_Delims(t, tk, ds, de) ==
  \A i \in 1..Len(tk) :
     TokK(tk[i]) = 1 =>
        LET v == Slice(t, TokS(tk[i]), TokE(tk[i])) IN HasPrefix(v, ds) /\ HasSuffix(v, de)

C07_NoAdjacentText(tk) == \A i \in 1..(Len(tk) - 1) : ~(TokK(tk[i]) = 0 /\ TokK(tk[i + 1]) = 0)

C07_Values(t, tk, vl) ==
  vl # <<>> => /\ Len(vl) = Len(tk)
               /\ \A i \in 1..Len(tk) : vl[i] = Slice(t, TokS(tk[i]), TokE(tk[i]))
               /\ ConcatAll(vl) = t

C07 == AtTokens =>
  /\ C07_Partition(file, toks)
  /\ C07_Bytes(file, toks)
  /\ C07_Delims(file, toks, cfg.ds, cfg.de)
  /\ C07_NoAdjacentText(toks)
  /\ C07_Values(file, toks, vals)

(***************************************************************************)
(* C08 leftmost-shortest recognition: tag tokens = RefSpans.               *)
(***************************************************************************)
TagSpansOf(tk) == LET sel == SelectSeq(tk, LAMBDA r : TokK(r) = 1) IN [i \in 1..Len(sel) |-> <<TokS(sel[i]), TokE(sel[i])>>]

C08 == AtTokens => TagSpansOf(toks) = RefSpans(file, cfg.ds, cfg.de)
=============================================================================
