------------------------------- MODULE MC_Eval -------------------------------
(***************************************************************************)
(* Sanity of the date arithmetic the reference decision (Eval.tla) rests   *)
(* on, checked by TLC over every day of a set of years:                    *)
(*   Anchors      known day numbers (1970-01-01 = 0, 2000-03-01 = 11017,   *)
(*                2024-02-29 = 19782, 2038-01-19 = 24855);                 *)
(*   Successor    the day after <<y, m, d>> has the next day number        *)
(*                (month ends, year ends, leap days);                      *)
(*   Offsets      the expiry instant moves by exactly the offset: for a    *)
(*                canonical `to` t and offsets o1, o2 the instants differ  *)
(*                by OffSeconds(o2) - OffSeconds(o1) seconds;              *)
(*   Classes      no value is both canonical and malformed.                *)
(***************************************************************************)
EXTENDS Eval, TLC

CONSTANTS Years,       \* set of years
          OffMins,     \* set of offsets in minutes
          Samples      \* sequence of `to` / offset strings for the class check

VARIABLES y, m, d

Init == y \in Years /\ m = 1 /\ d = 1
Next == \/ d < DaysInMonth(y, m) /\ d' = d + 1 /\ UNCHANGED <<y, m>>
        \/ d = DaysInMonth(y, m) /\ m < 12 /\ m' = m + 1 /\ d' = 1 /\ UNCHANGED y

NextDay == IF d < DaysInMonth(y, m) THEN <<y, m, d + 1>>
           ELSE IF m < 12 THEN <<y, m + 1, 1>> ELSE <<y + 1, 1, 1>>

Successor == LET n == NextDay IN DaysFromCivil(n[1], n[2], n[3]) = DaysFromCivil(y, m, d) + 1

Anchors == /\ DaysFromCivil(1970, 1, 1) = 0
           /\ DaysFromCivil(2000, 3, 1) = 11017
           /\ DaysFromCivil(2024, 2, 29) = 19782
           /\ DaysFromCivil(2038, 1, 19) = 24855
           /\ DaysFromCivil(1969, 12, 31) = -1

TwoD(n) == <<48 + (n \div 10), 48 + (n % 10)>>
FourD(n) == <<48 + (n \div 1000), 48 + ((n \div 100) % 10), 48 + ((n \div 10) % 10), 48 + (n % 10)>>
ToOf(h, mi, s) == FourD(y) \o <<DASH>> \o TwoD(m) \o <<DASH>> \o TwoD(d) \o <<SP>> \o TwoD(h) \o <<COLON>> \o TwoD(mi) \o <<COLON>> \o TwoD(s)
AbsI(x) == IF x < 0 THEN -x ELSE x
OffOf(mn, colon) == <<IF mn < 0 THEN DASH ELSE PLUS>> \o TwoD(AbsI(mn) \div 60) \o (IF colon THEN <<COLON>> ELSE <<>>) \o TwoD(AbsI(mn) % 60)
SecsOf(p) == p[2]       \* compare via day difference * 86400 + seconds, days differ by at most 1

Offsets ==
  \A o1 \in OffMins, o2 \in OffMins, c \in BOOLEAN :
     LET t == ToOf(23, 59, 59)
         a == ExpiryInstant(t, OffOf(o1, c))
         b == ExpiryInstant(t, OffOf(o2, ~c))
     IN /\ CanonTime(t) /\ CanonOffset(OffOf(o1, c)) /\ CanonOffset(OffOf(o2, ~c))
        /\ (a[1] - b[1]) * 86400 + (a[2] - b[2]) = (o2 - o1) * 60
        /\ a[2] >= 0 /\ a[2] < 86400

Classes == \A i \in 1..Len(Samples) :
  /\ ~(CanonTime(Samples[i]) /\ MalformedTime(Samples[i]))
  /\ ~(CanonOffset(Samples[i]) /\ MalformedOffset(Samples[i]))
=============================================================================
