------------------------------- MODULE Listing -------------------------------
(***************************************************************************)
(* Reference listing (C15 - C17): which regions are listed, their line     *)
(* ranges, their rendering.                                                *)
(***************************************************************************)
EXTENDS Extent

ReadyRegions(d) == SortRanges(MaxRanges(RangesOf(ReadyElems(d))))

\* pending regions that are outstanding: not inside a ready region, not inside a larger pending region
PendingRegionSet(d) ==
  LET rr == RangesOf(ReadyElems(d))
      pr == RangesOf(PendingElems(d))
      Inside(r, q) == q[1] <= r[1] /\ r[2] <= q[2]
  IN {r \in pr : /\ ~\E q \in rr : Inside(r, q)
                 /\ ~\E q \in pr : q # r /\ Inside(r, q)}

\* list_all: ready and outstanding pending regions in source order, with their status
AllRegions(d) ==
  LET rr == MaxRanges(RangesOf(ReadyElems(d)))
      pr == PendingRegionSet(d)
      srt == SortRanges(rr \cup pr)
  IN [k \in 1..Len(srt) |-> <<srt[k], IF srt[k] \in rr THEN "Ready" ELSE "Pending">>]

LineRange(d, r) == <<LineOf(d.br, r[1]), LineOf(d.br, r[2] - 1)>>

(***************************************************************************)
(* The document space of C15: tags do not sit on unwrap wrapper lines,     *)
(* wrapper lines are non-empty code lines, the file does not start with a  *)
(* line break.                                                             *)
(***************************************************************************)
TagOnLine(t, d, k) ==
  \E i \in 1..Len(d.tk) : d.tk[i].k = 1 /\ d.tk[i].s < LineE(t, d.br, k) /\ LineS(d.br, k) < d.tk[i].e

C16Space(t, d) ==
  /\ t # <<>>
  /\ \A e \in d.elems :
       (e.uw /\ e.m >= 2 /\ e.st \in {"ready", "pending"}) =>
          /\ ~TagOnLine(t, d, e.lo + 1) /\ ~TagOnLine(t, d, e.lc - 1)
          /\ ~IsBlankLine(LineText(t, d.br, e.lo + 1)) /\ ~IsBlankLine(LineText(t, d.br, e.lc - 1))
          /\ e.alone

C15Space(t, d) == C16Space(t, d) /\ t[1] # NL

(***************************************************************************)
(* Rendering of one item (C16).                                            *)
(***************************************************************************)
Str_start == <<95, 115, 116, 97, 114, 116>>          \* _start
Str_end   == <<8254, 101, 110, 100>>                  \* (overline)end
BAR == 124

ExpandTabs(l) == ConcatAll([i \in 1..Len(l) |-> IF l[i] = TAB THEN <<SP, SP, SP, SP>> ELSE <<l[i]>>])
CountTabs(l) == Cardinality({i \in 1..Len(l) : l[i] = TAB})
IsAscii(l) == \A i \in 1..Len(l) : l[i] < 128

\* the number column: the number right-aligned, a space and a bar, w characters wide in total ("fixed-width":
\* the width itself is not stated by the property, it is read off the observed listing and must be the same everywhere)
NumCol(n, w) == LET ds == Digits(n) IN RepeatCh(SP, w - 2 - Len(ds)) \o ds \o <<SP, BAR>>

RECURSIVE CodeLines(_, _, _, _, _)
CodeLines(t, br, k, last, w) ==
  IF k > last THEN <<>>
  ELSE NumCol(k, w) \o ExpandTabs(LineText(t, br, k)) \o <<NL>> \o CodeLines(t, br, k + 1, last, w)

\* width of the number column of an observed block: characters of its second line up to and including the bar
ObservedWidth(blk) ==
  LET f == FindCh(blk, 1, NL)
      bar == IF f = 0 THEN 0 ELSE FindCh(blk, f + 1, BAR)
  IN IF bar = 0 THEN 0 ELSE bar - f

\* the prefixes that decide the marker columns
StartPrefix(t, br, r) == Slice(t, LineS(br, LineOf(br, r[1])), r[1])
EndPrefix(t, br, r)   == Slice(t, LineS(br, LineOf(br, r[2] - 1)), r[2])

RenderItem(t, br, r, w) ==
  LET p1 == StartPrefix(t, br, r)
      p2 == EndPrefix(t, br, r)
      t1 == CountTabs(p1)
      t2 == CountTabs(p2)
  IN RepeatCh(SP, 4 * t1) \o RepeatCh(SP, w + Len(p1) - t1) \o Str_start \o <<NL>>
     \o CodeLines(t, br, LineOf(br, r[1]), LineOf(br, r[2] - 1), w)
     \o RepeatCh(SP, 4 * t2) \o RepeatCh(SP, w - 1 + Len(p2) - t2) \o Str_end

\* the part of a rendered block between the two marker lines
MiddleOf(blk) ==
  LET f == FindCh(blk, 1, NL)
      ls == {i \in 1..Len(blk) : blk[i] = NL}
  IN IF f = 0 THEN <<>> ELSE LET l == CHOOSE i \in ls : \A j \in ls : j <= i IN SubSeq(blk, f + 1, l)

\* the numbered rows of an observed block agree with its line range: as many rows as lines, numbered consecutively from the
\* first line number (independent of what a "line" is in a source with carriage returns)
RowsConsistent(blk, lr, w) ==
  LET mid == MiddleOf(blk)
      nl == SelectSeq([i \in 1..Len(mid) |-> i], LAMBDA i : mid[i] = NL)
  IN /\ Len(nl) = lr[2] - lr[1] + 1
     /\ \A j \in 1..Len(nl) :
          LET p == IF j = 1 THEN 1 ELSE nl[j - 1] + 1 IN
          p + w - 1 <= Len(mid) /\ SubSeq(mid, p, p + w - 1) = NumCol(lr[1] + j - 1, w)

\* marker columns are pinned down only for ASCII text to the left and a plain last character
ColumnsDetermined(t, br, r) ==
  /\ IsAscii(StartPrefix(t, br, r)) /\ IsAscii(EndPrefix(t, br, r))
  /\ t[r[2]] \notin {NL, TAB}

(***************************************************************************)
(* Highlighted text of a pretty item: the characters between ESC[31m /     *)
(* ESC[33m and ESC[0m, segments joined by line breaks.                     *)
(***************************************************************************)
ESC == 27
\* an SGR sequence ESC [ digits-and-semicolons m starting at i: returns its length, 0 if none; reset = all digits are '0'
RECURSIVE DigitsEnd(_, _)
DigitsEnd(b, i) == IF i <= Len(b) /\ ((b[i] >= 48 /\ b[i] <= 57) \/ b[i] = 59) THEN DigitsEnd(b, i + 1) ELSE i
SgrLen(b, i) == IF i + 2 <= Len(b) /\ b[i] = ESC /\ b[i + 1] = 91
                THEN LET e == DigitsEnd(b, i + 2) IN IF e > i + 2 /\ e <= Len(b) /\ b[e] = 109 THEN e - i + 1 ELSE 0
                ELSE 0
SgrIsReset(b, i) == \A k \in (i + 2)..(i + SgrLen(b, i) - 2) : b[k] = 48

\* the colours themselves are not part of any property: any non-reset SGR sequence opens a highlighted segment
RECURSIVE HighlightScan(_, _, _, _, _)
HighlightScan(b, i, inside, cur, acc) ==
  IF i > Len(b) THEN acc
  ELSE LET n == SgrLen(b, i) IN
       IF n > 0 /\ ~inside /\ ~SgrIsReset(b, i) THEN HighlightScan(b, i + n, TRUE, <<>>, acc)
       ELSE IF n > 0 /\ inside /\ SgrIsReset(b, i) THEN HighlightScan(b, i + n, FALSE, <<>>, Append(acc, cur))
       ELSE IF n > 0 THEN HighlightScan(b, i + n, inside, cur, acc)
       ELSE IF inside THEN HighlightScan(b, i + 1, TRUE, Append(cur, b[i]), acc)
       ELSE HighlightScan(b, i + 1, FALSE, cur, acc)

RECURSIVE JoinNL(_)
JoinNL(ss) == IF ss = <<>> THEN <<>> ELSE IF Len(ss) = 1 THEN ss[1] ELSE ss[1] \o <<NL>> \o JoinNL(Tail(ss))

Highlighted(raw) == JoinNL(HighlightScan(MiddleOf(raw), 1, FALSE, <<>>, <<>>))
=============================================================================
