------------------------------- MODULE MC_Hist -------------------------------
(***************************************************************************)
(* Model checking of histories without running any code: the managed file  *)
(* under periodic cleaning.  After a document of the line generator has    *)
(* been built, the clock advances through a sequence of instants (and the  *)
(* target set grows with it) and the tool may be run - any number of times *)
(* - at every instant, each run writing its result back (Commit).  The     *)
(* result of a run is the one the transcription of the code computes       *)
(* (Impl!ImplClean).  Checked in every reachable state after a run:        *)
(*   Idempotent    running again with the same configuration changes       *)
(*                 nothing;                                                *)
(*   Composes      the file equals, up to whitespace, the original         *)
(*                 document cleaned once with the current configuration    *)
(*                 (C19), except for the recorded finding                  *)
(*                 C19-blank-wrappers;                                     *)
(*   Monotone      what is left only shrinks over time (C05).              *)
(***************************************************************************)
EXTENDS GenLines, Impl, Layout, Spell

CONSTANTS Clocks,       \* sequence of <<day, second>>, ascending
          TargetSteps   \* sequence of target sequences, growing; same length as Clocks

VARIABLES phase, file0, cur, clk, fresh, prev

hvars == <<phase, file0, cur, clk, fresh, prev>>

CfgAt(k) == [ds |-> DS, de |-> DE, tl |-> TL, rm |-> RM, off |-> OFF, now |-> Clocks[k], targets |-> SeqToSet(TargetSteps[k])]

HInit == Init /\ phase = "build" /\ file0 = <<>> /\ cur = <<>> /\ clk = 1 /\ fresh = FALSE /\ prev = <<>>

Build  == phase = "build" /\ Next /\ UNCHANGED hvars
Start  == /\ phase = "build" /\ Complete
          /\ phase' = "run" /\ file0' = GenDoc \o <<NL>> /\ cur' = GenDoc \o <<NL>> /\ clk' = 1 /\ fresh' = FALSE /\ prev' = GenDoc \o <<NL>>
          /\ UNCHANGED gvars
Advance == /\ phase = "run" /\ clk < Len(Clocks)
           /\ clk' = clk + 1 /\ fresh' = FALSE
           /\ UNCHANGED <<phase, file0, cur, prev, gvars>>
Commit == /\ phase = "run"
          /\ cur' = ImplClean(cur, CfgAt(clk)).out
          /\ prev' = cur /\ fresh' = TRUE
          /\ UNCHANGED <<phase, file0, clk, gvars>>

HNext == Build \/ Start \/ Advance \/ Commit

Space == LET d0 == Doc(file0, CfgAt(clk)) IN
         ~d0.lenient /\ DelimsOnlyInTags(file0, CfgAt(clk)) /\ WrapperLinesNeverTagged(file0, d0)

BlankWrappers == LET d0 == Doc(file0, CfgAt(clk)) IN
  \E e \in d0.elems : e.uw /\ e.m >= 2 /\ IsBlankLine(LineText(file0, d0.br, e.lo + 1)) /\ IsBlankLine(LineText(file0, d0.br, e.lc - 1))

\* the second recorded finding (KnownFindings!KF_C19_BlankWrapperLead), same definition
BlankWrapperLead == LET d0 == Doc(file0, CfgAt(clk)) IN
  \E e \in d0.elems :
     /\ e.uw /\ e.m >= 2
     /\ \E w \in {e.lo + 1, e.lc - 1} :
           /\ IsBlankLine(LineText(file0, d0.br, w))
           /\ \E x \in d0.elems : LET k == w + 1 IN
                 /\ LineOf(d0.br, x.os) = k /\ LineOf(d0.br, x.ce - 1) = k
                 /\ AllBlank(Slice(file0, LineS(d0.br, k), x.os)) /\ ~AllBlank(Slice(file0, x.ce, LineE(file0, d0.br, k)))

Idempotent == (phase = "run" /\ fresh /\ Space) => ImplClean(cur, CfgAt(clk)).out = cur
Composes   == (phase = "run" /\ fresh /\ Space /\ ~BlankWrappers /\ ~BlankWrapperLead) => NonWs(cur) = NonWs(ImplClean(file0, CfgAt(clk)).out)
\* without the exclusion TLC reproduces the recorded finding at model level (used by bin/selftest)
ComposesStrict == (phase = "run" /\ fresh /\ Space) => NonWs(cur) = NonWs(ImplClean(file0, CfgAt(clk)).out)
Monotone   == (phase = "run" /\ fresh) => IsSubseq(NonWs(cur), NonWs(prev))
NoCrash    == (phase = "run") => ~ImplClean(cur, CfgAt(clk)).crash
=============================================================================
