------------------------------ MODULE ImplList ------------------------------
(***************************************************************************)
(* Layer I: transcription of chiritori/src/code/list.rs (uncoloured form,  *)
(* i.e. what the JSON list carries) and utils/line_map.rs.  Offsets are    *)
(* character offsets; the marker columns are computed from BYTE distances  *)
(* in the code, which is transcribed with the UTF-8 width function.        *)
(***************************************************************************)
EXTENDS ImplFmt

\* find_line: 1 + number of line breaks at offsets <= needle
FindLine(t, needle) == 1 + Cardinality({i \in 1..Len(t) : t[i] = NL /\ i - 1 <= needle})

RECURSIVE ByteLen(_)
ByteLen(s) == IF s = <<>> THEN 0 ELSE W(s[1]) + ByteLen(Tail(s))

CountTab(s) == Cardinality({i \in 1..Len(s) : s[i] = TAB})
Expand(s) == ConcatAll([i \in 1..Len(s) |-> IF s[i] = TAB THEN <<SP, SP, SP, SP>> ELSE <<s[i]>>])

\* str::lines() of a text without '\r': split at line breaks, no empty piece for a trailing line break
RECURSIVE SplitLines(_, _, _)
SplitLines(s, i, cur) ==
  IF i > Len(s) THEN (IF cur = <<>> /\ Len(s) > 0 /\ s[Len(s)] = NL THEN <<>> ELSE <<cur>>)
  ELSE IF s[i] = NL THEN <<cur>> \o SplitLines(s, i + 1, <<>>)
  ELSE SplitLines(s, i + 1, Append(cur, s[i]))
LinesOfStr(s) == IF s = <<>> THEN <<>> ELSE SplitLines(s, 1, <<>>)

RECURSIVE JoinWithNL(_)
JoinWithNL(ls) == IF ls = <<>> THEN <<>> ELSE IF Len(ls) = 1 THEN ls[1] ELSE ls[1] \o <<NL>> \o JoinWithNL(Tail(ls))

NumberColumn(n) == LET ds == Digits(n) IN RepeatCh(SP, 7 - Len(ds)) \o ds \o <<SP, 124>>

RECURSIVE NumberedLines(_, _, _, _)
NumberedLines(ls, k, n, last) ==      \* line numbers n..last paired with the k-th, k+1-th ... line of `removed`
  IF n > last THEN <<>>
  ELSE (IF k <= Len(ls) THEN NumberColumn(n) \o ls[k] \o <<NL>> ELSE <<>>) \o NumberedLines(ls, k + 1, n + 1, last)

\* build_pretty_string_item(content, start, end, _, coloring = false, Some(line_range))
ImplItemBlock(t, s, e, lr) ==
  IF e - s = 0 \/ t = <<>> THEN <<>>
  ELSE LET ps == FindPrev(t, s, FALSE)
           lineStart == IF ps = -1 THEN 0 ELSE ps + 1
           pe == FindPrev(t, e - 1, FALSE)
           lineEndStart == IF pe = -1 THEN 0 ELSE pe + 1
           ne == FindNext(t, e - 1, FALSE)
           lineEnd == IF ne = -1 THEN Len(t) ELSE ne
           colorEnd == Min2(e, lineEnd)
           removed == Slice(t, lineStart, s) \o JoinWithNL(LinesOfStr(Slice(t, s, colorEnd))) \o Slice(t, colorEnd, lineEnd) \o <<NL>>
           block == NumberedLines(LinesOfStr(removed), 1, lr[1], lr[2])
           p1 == Slice(t, lineStart, s)
           p2 == Slice(t, lineEndStart, e)
           t1 == CountTab(p1)
           t2 == CountTab(p2)
       IN RepeatCh(SP, 4 * t1) \o RepeatCh(SP, 9 + ByteLen(p1) - t1) \o <<95, 115, 116, 97, 114, 116, NL>>
          \o Expand(block)
          \o RepeatCh(SP, 4 * t2) \o RepeatCh(SP, ByteLen(p2) - 1 + 9 - t2) \o <<8254, 101, 110, 100>>

\* build_list over marker rows <<start, end, pair, ready>>
ImplItems(t, rows) ==
  [i \in 1..Len(rows) |->
     LET lr == <<FindLine(t, rows[i][1]), FindLine(t, rows[i][2] - 1)>> IN
     [lr |-> lr, block |-> ImplItemBlock(t, rows[i][1], rows[i][2], lr),
      status |-> IF rows[i][4] = 1 THEN "Ready" ELSE "Pending"]]

(***************************************************************************)
(* The pretty form (coloring = true) and build_pretty_string: header lines, *)
(* ANSI colours around the markers and around every line of the region.     *)
(***************************************************************************)
Esc(code) == <<27, 91>> \o code \o <<109>>
ColGreen == Esc(<<51, 50>>)      \* ESC[32m  markers
ColRed   == Esc(<<51, 49>>)      \* ESC[31m  ready region
ColYel   == Esc(<<51, 51>>)      \* ESC[33m  pending region
ColReset == Esc(<<48>>)

ImplItemPretty(t, s, e, ready, lr) ==
  IF e - s = 0 \/ t = <<>> THEN <<>>
  ELSE LET ps == FindPrev(t, s, FALSE)
           lineStart == IF ps = -1 THEN 0 ELSE ps + 1
           pe == FindPrev(t, e - 1, FALSE)
           lineEndStart == IF pe = -1 THEN 0 ELSE pe + 1
           ne == FindNext(t, e - 1, FALSE)
           lineEnd == IF ne = -1 THEN Len(t) ELSE ne
           colorEnd == Min2(e, lineEnd)
           col == IF ready THEN ColRed ELSE ColYel
           hl == LinesOfStr(Slice(t, s, colorEnd))
           removed == Slice(t, lineStart, s) \o JoinWithNL([i \in 1..Len(hl) |-> col \o hl[i] \o ColReset])
                      \o Slice(t, colorEnd, lineEnd) \o <<NL>>
           block == NumberedLines(LinesOfStr(removed), 1, lr[1], lr[2])
           p1 == Slice(t, lineStart, s)
           p2 == Slice(t, lineEndStart, e)
           t1 == CountTab(p1)
           t2 == CountTab(p2)
       IN RepeatCh(SP, 4 * t1) \o RepeatCh(SP, 9 + ByteLen(p1) - t1) \o ColGreen \o <<95, 115, 116, 97, 114, 116>> \o ColReset \o <<NL>>
          \o Expand(block)
          \o RepeatCh(SP, 4 * t2) \o RepeatCh(SP, ByteLen(p2) - 1 + 9 - t2) \o ColGreen \o <<8254, 101, 110, 100>> \o ColReset

HeadStart == <<45, 45, 45, 45, 45, 45, 45, 45, 32, 91, 32>>                   \* "-------- [ "
HeadReady == <<32, 93, 32, 32, 82, 101, 97, 100, 121, 32, 32>>                 \* " ]  Ready  "
HeadPend  == <<32, 93, 32, 80, 101, 110, 100, 105, 110, 103, 32>>              \* " ] Pending "
HeadEnd   == <<45, 45, 45, 45, 45, 45, 45, 45>>

ImplPretty(t, rows) ==
  ConcatAll([i \in 1..Len(rows) |->
     LET lr == <<FindLine(t, rows[i][1]), FindLine(t, rows[i][2] - 1)>> IN
     <<NL>> \o HeadStart \o Digits(i) \o (IF rows[i][4] = 1 THEN HeadReady ELSE HeadPend) \o HeadEnd \o <<NL>>
     \o ImplItemPretty(t, rows[i][1], rows[i][2], rows[i][4] = 1, lr)]) \o <<NL>>
=============================================================================
