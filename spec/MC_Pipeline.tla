----------------------------- MODULE MC_Pipeline -----------------------------
(***************************************************************************)
(* The state machine of Chiritori.tla driven by the transcription of the   *)
(* code (Layer I), model-checked against the SAME property predicates      *)
(* that decide recorded traces (Props.tla) - no code involved.              *)
(*                                                                         *)
(* A document of the line generator is built (Build), becomes the managed  *)
(* file (Load = Edit), and then the operations clean, list (JSON) and       *)
(* list_all (JSON) run stage by stage; every stage action of Chiritori.tla  *)
(* gets the value Impl.tla computes, in the format the hooks report (byte   *)
(* offsets).  C01 - C04, C07, C08, C10 - C17 are invariants of this system. *)
(***************************************************************************)
EXTENDS Conform

CONSTANTS DS, DE, TL, RM, OFF, NOW, TARGETS, OPS, GEN,
          L, DMax, E, Kinds, Unit, Base, FreeInd, FreeCode, FreeTags, WsLens, Blank, Suffix, TagSep, FlagVal, EqPad, ExtraAttr, TagPad, OpenPad, WideCode, EdgeCh, Lead, QuoteCh, FlagsFirst, EOL, Preamble, InlineTags, Crossing, TailKinds, TailElems, PairKind, PairLines, MaxCode,
          EmptyDefault, MbCode, CodeA, CodeB, PastTo, FutureTo, Tos, Names

VARIABLES lines, stack, nel

G == INSTANCE GenLines WITH D <- DMax

Cfg0 == [ds |-> DS, de |-> DE, tl |-> TL, rm |-> RM, off |-> OFF, now |-> NOW, targets |-> SeqToSet(TARGETS)]

PInit == G!Init /\ Init(<<>>, Cfg0)

Plan == <<"clean", "list_json", "list_all_json">>        \* the operations run on every document, in this order

GUnch == UNCHANGED <<lines, stack, nel>>

Build == /\ pc = "idle" /\ op = "none" /\ G!Next /\ UNCHANGED vars
Load  == /\ pc = "idle" /\ op = "none" /\ G!Complete /\ Edit(G!GenDoc \o <<NL>>) /\ GUnch

\* Layer I values in the format of the hook events
Tok6(t, c)  == LET tk == ImplTokens(t, c.ds, c.de) IN [i \in 1..Len(tk) |-> tk[i] \o <<tk[i][5] - tk[i][4]>>]
TreeB(t, c) == ImplTreeRowsBytes(ImplStages(t, c))

DoCall == /\ pc \in {"idle", "returned"} /\ op # "none" /\ Len(hist) < Len(Plan)
          /\ Call(Plan[Len(hist) + 1]) /\ GUnch
DoTokens == pc = "called" /\ StageTokens(Tok6(file, cfg)) /\ GUnch
DoTree   == pc = "tokenized" /\ StageTree(TreeB(file, cfg)) /\ GUnch
DoMarkers ==
  /\ pc = "treed" /\ GUnch
  /\ IF op \in CleanOps
     THEN LET r == ImplClean(file, cfg) IN
          IF r.crash THEN Panic(<<>>) ELSE StageMarkers(MarkersToBytes(file, r.markers), r.removed)
     ELSE LET r == ImplMarkersAll(file, cfg, op = "list_all_json") IN
          IF r.crash THEN Panic(<<>>) ELSE StageMarkersAll(MarkersToBytes(file, r.rows))
DoReturn ==
  /\ pc = "marked" /\ GUnch
  /\ IF op \in CleanOps
     THEN LET r == ImplClean(file, cfg) IN IF r.crash THEN Panic(<<>>) ELSE Return(r.out)
     ELSE LET r == ImplMarkersAll(file, cfg, op = "list_all_json") IN
          ReturnList(<<>>, ImplItems(file, r.rows), [json_ok |-> TRUE])

PNext == Build \/ Load \/ DoCall \/ DoTokens \/ DoTree \/ DoMarkers \/ DoReturn

\* documents whose decisions the transcription cannot predict (chrono spellings) are not explored further
Known == ~ImplStages(file, cfg).unknown
\* sanity: this must be VIOLATED (used by bin/selftest to show that the plan runs to its end)
NeverFinishes == ~(pc = "returned" /\ Len(hist) = Len(Plan) /\ items # <<>>)

PConstraint == G!Feasible /\ (pc = "idle" \/ Known)
=============================================================================
