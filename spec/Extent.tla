------------------------------- MODULE Extent -------------------------------
(***************************************************************************)
(* Reference elements, their status and their removable extents            *)
(* (C02, C03, C04, C11, C15).                                              *)
(***************************************************************************)
EXTENDS Tags, Tree, Eval

\* tag descriptors of all tokens, in document order
TagDescs(t, tk, ds, de) ==
  [i \in 1..Len(tk) |->
     IF tk[i].k = 0 THEN [k |-> 0, cls |-> "text", name |-> <<>>, attrs |-> <<>>]
     ELSE LET p == RefParse(TagBody(Slice(t, tk[i].s, tk[i].e), ds, de), ds, de)
          IN [k |-> 1, cls |-> p.cls, name |-> p.name, attrs |-> p.attrs]]

(***************************************************************************)
(* Unwrap geometry.  With the opening tag ending on line o and the closing *)
(* tag starting on line c there are m = c - o - 1 lines between them; the  *)
(* element can be unwrapped iff m >= 2.  Head: from the first character of *)
(* the opening tag to the end of line o + 1 (its line break excluded);     *)
(* tail: from the start of line c - 1 to the last character of the closing *)
(* tag.                                                                    *)
(***************************************************************************)
ElemOf(t, br, tk, tg, c, pr) ==
  LET o  == tk[pr[1]]
      cl == tk[pr[2]]
      p  == tg[pr[1]]
      lo == LineOf(br, o.e - 1)             \* line on which the opening tag ends
      lc == LineOf(br, cl.s)                \* line on which the closing tag starts
      m  == lc - lo - 1
      uw == IsUnwrap(p)
      st == Status(p, c)
      whole == <<o.s, cl.e>>
      head == <<o.s, LineE(t, br, lo + 1)>>
      tail == <<LineS(br, lc - 1), cl.e>>
      \* tags alone on their lines (indentation only): the layout C11 speaks about
      alone == /\ AllBlank(Slice(t, LineS(br, LineOf(br, o.s)), o.s))
               /\ AllBlank(Slice(t, o.e, LineE(t, br, lo)))
               /\ AllBlank(Slice(t, LineS(br, lc), cl.s))
               /\ AllBlank(Slice(t, cl.e, LineE(t, br, LineOf(br, cl.e - 1))))
  IN [oi |-> pr[1], ci |-> pr[2], os |-> o.s, oe |-> o.e, cs |-> cl.s, ce |-> cl.e,
      p |-> p, st |-> st, uw |-> uw, m |-> m, lo |-> lo, lc |-> lc, alone |-> alone,
      unwrappable |-> uw /\ m >= 2,
      \* the removable extent: sequence of ranges
      ext |-> IF ~uw THEN <<whole>> ELSE IF m >= 2 THEN <<head, tail>> ELSE <<>>,
      whole |-> whole]

\* everything the later predicates need, computed once per document
Doc(t, c) ==
  LET tk == RefTokens(t, c.ds, c.de)
      tg == TagDescs(t, tk, c.ds, c.de)
      br == Breaks(t)
      prs == StackPairs(tg)
      es == {ElemOf(t, br, tk, tg, c, pr) : pr \in prs}
  IN [tk |-> tk, tg |-> tg, br |-> br, pairs |-> prs, elems |-> es,
      lenient |-> \/ \E i \in 1..Len(tg) : tg[i].cls = "lenient" \/ (tg[i].cls = "ok" /\ OddName(tg[i].name))
                  \/ \E e \in es : e.st = "lenient"]

\* ready = condition holds and there is something to remove (a non-unwrappable unwrap-block is not ready)
IsReady(e)   == e.st = "ready" /\ e.ext # <<>>
IsPending(e) == e.st = "pending" /\ e.ext # <<>>
ReadyElems(d)   == {e \in d.elems : IsReady(e)}
PendingElems(d) == {e \in d.elems : IsPending(e)}

RangesOf(es) == UNION {SeqToSet(e.ext) : e \in es}

InRanges(rs, p) == \E r \in rs : r[1] <= p /\ p < r[2]       \* 0-based offset p

\* text with the characters of the ranges taken out
Without(t, rs) ==
  LET keep == SelectSeq([i \in 1..Len(t) |-> i], LAMBDA i : ~InRanges(rs, i - 1))
  IN [k \in 1..Len(keep) |-> t[keep[k]]]

\* maximal ranges under inclusion, sorted by start: the regions deleted before tidying (C15)
MaxRanges(rs) == {r \in rs : ~\E q \in rs : q # r /\ q[1] <= r[1] /\ r[2] <= q[2]}
RECURSIVE SortRanges(_)
SortRanges(rs) == IF rs = {} THEN <<>>
                  ELSE LET r == CHOOSE x \in rs : \A y \in rs : x[1] < y[1] \/ (x[1] = y[1] /\ x[2] <= y[2])
                       IN <<r>> \o SortRanges(rs \ {r})

\* C11's layout for an element: both tags alone on their lines
C11Layout(e) == e.alone

\* permitted removal area (C02) and required removal (C03) of a ready element: for an unwrap-block outside
\* C11's layout the properties do not define the extent - everything inside the element may go, nothing must
PermittedOf(e) == IF e.uw /\ ~e.alone THEN {e.whole} ELSE SeqToSet(e.ext)
RequiredOf(e)  == IF e.uw /\ ~e.alone THEN {} ELSE SeqToSet(e.ext)
=============================================================================
