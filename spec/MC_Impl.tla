------------------------------- MODULE MC_Impl -------------------------------
(***************************************************************************)
(* Model checking without running any code: on every document of the line  *)
(* generator (GenLines), the assembled transcription of the code (Impl.tla)*)
(* satisfies the Layer R requirements - no crash (C01), no over- / under-  *)
(* removal, no-op identity (C02 - C04), unwrap and dedent (C11, C12), line *)
(* integrity and blank residue (C13), locality (C14).  A failure here is   *)
(* replayed on the real code by the trace checks before it counts.         *)
(***************************************************************************)
EXTENDS GenLines, Impl, Layout

ImplSatisfiesR ==
  Complete =>
    LET t == GenDoc \o <<NL>>
        c == [ds |-> DS, de |-> DE, tl |-> TL, rm |-> RM, off |-> OFF, now |-> NOW, targets |-> SeqToSet(TARGETS)]
        d == Doc(t, c)            \* Extent!Doc, the reference view
        r == ImplClean(t, c)
        o == r.out
        Perm == UNION {PermittedOf(e) : e \in ReadyElems(d)}
        Req  == UNION {RequiredOf(e) : e \in ReadyElems(d)}
    IN /\ ~r.crash
       /\ (~d.lenient /\ ~r.unknown) =>
            /\ IsSubseq(o, t) /\ IsSubseq(NonWs(Without(t, Perm)), NonWs(o))
            /\ IsSubseq(NonWs(o), NonWs(Without(t, Req)))
            /\ (ReadyElems(d) = {} => o = t)
            /\ (BlockStyle(d) /\ WrapperLinesClean(t, d)) => (LineIntegrity(t, d, o, FALSE) /\ UntouchedBlocks(t, d, o))
            /\ (BlockStyle(d) /\ WrapperLinesClean(t, d) /\ RegularNesting(t, d)) => Dedent(t, d, o)
            /\ (BlockStyle(d) /\ UnwrappedElems(d) = {}) => (LineIntegrity(t, d, o, TRUE) /\ BlankResidue(t, d, o))
            /\ (\A e \in UnwrappedElems(d) : e.alone) => Locality(t, d, o)
=============================================================================
