----------------------------- MODULE GenRespell -----------------------------
(***************************************************************************)
(* C18: every document of the line generator in a base spelling, followed  *)
(* by its respelling to every other spelling of a pool (the environment    *)
(* action "rewrite source and configuration consistently").                *)
(***************************************************************************)
EXTENDS GenLines, Spell

CONSTANT Spellings      \* sequence of [ds, de, tl, rm]
CONSTANT CliPhase       \* "" : library only; "eq" / "sep": the respelled phase is also run through the command line, the
                        \* respelled configuration given by options in the form --opt=value / --opt value

BaseSp == [ds |-> DS, de |-> DE, tl |-> TL, rm |-> RM]

CliOp(inp, outp, mode, js) ==
  [op |-> "cli", input |-> inp, output |-> outp, mode |-> mode, json |-> js, targets_via |-> "flags", current |-> "given",
   conf_final_newline |-> TRUE, tz |-> "UTC", lang |-> "", now_zone_min |-> 0, file_targets |-> <<>>, flag_targets |-> TARGETS,
   omit |-> <<>>, argform |-> CliPhase, odd |-> ""]
CliOps == IF CliPhase = "" THEN <<>>
          ELSE <<CliOp("file", "stdout", "clean", FALSE), CliOp("stdin", "file", "list", TRUE), CliOp("stdin", "stdout", "clean", FALSE)>>

OpsFor(sp) ==
  <<[op |-> "clean"], [op |-> "list_json"],
    [op |-> "edit", src |-> Respell(GenDoc \o <<NL>>, BaseSp, sp)],
    [op |-> "config", ds |-> sp.ds, de |-> sp.de, tl |-> sp.tl, rm |-> sp.rm],
    [op |-> "clean"], [op |-> "list_json"]>> \o CliOps

EmitPairs == Complete =>
  \A j \in 1..Len(Spellings) : EmitRec([id |-> "", src |-> GenDoc \o <<NL>>, ops |-> OpsFor(Spellings[j])])
=============================================================================
