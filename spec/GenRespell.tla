----------------------------- MODULE GenRespell -----------------------------
(***************************************************************************)
(* C18: every document of the line generator in a base spelling, followed  *)
(* by its respelling to every other spelling of a pool (the environment    *)
(* action "rewrite source and configuration consistently").                *)
(***************************************************************************)
EXTENDS GenLines, Spell

CONSTANT Spellings      \* sequence of [ds, de, tl, rm]

BaseSp == [ds |-> DS, de |-> DE, tl |-> TL, rm |-> RM]

OpsFor(sp) ==
  <<[op |-> "clean"], [op |-> "list_json"],
    [op |-> "edit", src |-> Respell(GenDoc \o <<NL>>, BaseSp, sp)],
    [op |-> "config", ds |-> sp.ds, de |-> sp.de, tl |-> sp.tl, rm |-> sp.rm],
    [op |-> "clean"], [op |-> "list_json"]>>

EmitPairs == Complete =>
  \A j \in 1..Len(Spellings) : EmitRec([id |-> "", src |-> GenDoc \o <<NL>>, ops |-> OpsFor(Spellings[j])])
=============================================================================
