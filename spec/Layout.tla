------------------------------- MODULE Layout -------------------------------
(***************************************************************************)
(* Envelopes for the whitespace tidying (C11 - C14).  The properties do    *)
(* not fix every blank the tool may delete next to a removal; they fix     *)
(* what must survive, what must go and - for block-style documents - what  *)
(* the lines of the result are.  Every predicate takes the document d =    *)
(* Doc(file, cfg) of Extent.tla, the source text t and the observed        *)
(* result out.                                                             *)
(***************************************************************************)
EXTENDS Extent

LinesOf(t) == LET br == Breaks(t) IN [k \in 1..NumLines(br) |-> LineText(t, br, k)]

StripIndent(l) == SubSeq(l, IndentLen(l) + 1, Len(l))

\* block style: the tags of every element stand alone on their lines
BlockStyle(d) == \A e \in d.elems : e.alone

\* line numbers (of the source) covered by the extent of a ready element
ElemLines(d, e) ==
  IF ~e.uw THEN LineOf(d.br, e.os)..LineOf(d.br, e.ce - 1)
  ELSE (LineOf(d.br, e.os)..(e.lo + 1)) \cup ((e.lc - 1)..LineOf(d.br, e.ce - 1))

RemovedLineSet(d) == UNION {ElemLines(d, e) : e \in ReadyElems(d)}

\* source line numbers that survive and are not blank, ascending
SurvivingLineNos(t, d) ==
  LET ls == LinesOf(t)
      rm == RemovedLineSet(d)
  IN SelectSeq([k \in 1..Len(ls) |-> k], LAMBDA k : k \notin rm /\ ~IsBlankLine(ls[k]))

NonBlankLineNos(ls) == SelectSeq([k \in 1..Len(ls) |-> k], LAMBDA k : ~IsBlankLine(ls[k]))

\* no tag sits on a wrapper line of an unwrapped element (the document space of C11 / C12)
TagTouchesLine(t, d, k) ==
  \E i \in 1..Len(d.tk) : d.tk[i].k = 1 /\ d.tk[i].s < LineE(t, d.br, k) /\ LineS(d.br, k) < d.tk[i].e
WrapperLinesClean(t, d) ==
  \A e \in d.elems : (e.uw /\ e.st = "ready" /\ e.m >= 2) => ~TagTouchesLine(t, d, e.lo + 1) /\ ~TagTouchesLine(t, d, e.lc - 1)

\* A tagged wrapper line is harmless for stepwise cleaning when every tag on it belongs to an element lying wholly
\* on that line and the line has text of its own outside those elements: whichever of them an earlier run removes,
\* the line stays the same non-blank line, and the run that unwraps the block deletes it with whatever is left on it.
WrapperLineHarmless(t, d, k) ==
  LET xs == {x \in d.elems : LineOf(d.br, x.os) = k /\ LineOf(d.br, x.ce - 1) = k} IN
  /\ \A i \in 1..Len(d.tk) :
        (d.tk[i].k = 1 /\ d.tk[i].s < LineE(t, d.br, k) /\ LineS(d.br, k) < d.tk[i].e) => \E x \in xs : x.oi = i \/ x.ci = i
  /\ \E p \in LineS(d.br, k)..(LineE(t, d.br, k) - 1) : ~IsBlank(t[p + 1]) /\ \A x \in xs : ~(x.os <= p /\ p < x.ce)

\* the same for every unwrap-block element whatever its status (C19: a later run may make it ready)
WrapperLinesNeverTagged(t, d) ==
  \A e \in d.elems : (e.uw /\ e.m >= 2) =>
     /\ (TagTouchesLine(t, d, e.lo + 1) => WrapperLineHarmless(t, d, e.lo + 1))
     /\ (TagTouchesLine(t, d, e.lc - 1) => WrapperLineHarmless(t, d, e.lc - 1))

\* A wider class of tagged wrapper lines on which stepwise and at-once cleaning are still determined (C19), relative
\* to the configurations of a chain (docs = the reference views of the first source under each of them).  Besides
\* elements lying wholly on the wrapper line, the block e may hold ONE straddler x: a default-strategy element
\* inside e's body with exactly one of its tags on the wrapper line k, the other tag standing at the edge of a
\* body line (nothing but blanks on its outer side), that is ready in every configuration in which e is ready
\* (it goes before or together with the wrapper line, so no tag of it is stranded), leaves the wrapper line text
\* of its own, and leaves the block at least two lines.
TagOnK(t, d, i, k) == d.tk[i].s < LineE(t, d.br, k) /\ LineS(d.br, k) < d.tk[i].e
ReadyIn(dd, oi) == \E y \in dd.elems : y.oi = oi /\ y.st = "ready"
Straddlers(t, d, e, docs) ==
  {x \in d.elems :
     /\ ~x.uw /\ x.os >= e.oe /\ x.ce <= e.cs
     /\ \E k \in {e.lo + 1, e.lc - 1} : TagOnK(t, d, x.oi, k) # TagOnK(t, d, x.ci, k)
     /\ ~(\E k \in {e.lo + 1, e.lc - 1} : TagOnK(t, d, x.oi, k)) \/ ~(\E k \in {e.lo + 1, e.lc - 1} : TagOnK(t, d, x.ci, k))
     /\ (\E k \in {e.lo + 1, e.lc - 1} : TagOnK(t, d, x.ci, k)) => AllBlank(Slice(t, LineS(d.br, LineOf(d.br, x.os)), x.os))
     /\ (\E k \in {e.lo + 1, e.lc - 1} : TagOnK(t, d, x.oi, k)) => AllBlank(Slice(t, x.ce, LineE(t, d.br, LineOf(d.br, x.ce - 1))))
     /\ \A dd \in docs : ReadyIn(dd, e.oi) => ReadyIn(dd, x.oi)}
WrapperLineTolerable(t, d, e, k, docs) ==
  LET xs == {x \in d.elems : LineOf(d.br, x.os) = k /\ LineOf(d.br, x.ce - 1) = k}
      ss == Straddlers(t, d, e, docs)
  IN /\ Cardinality(ss) <= 1
     /\ \A x \in ss : e.m - (LineOf(d.br, x.ce - 1) - LineOf(d.br, x.os)) >= 2
     /\ \A i \in 1..Len(d.tk) : (d.tk[i].k = 1 /\ TagOnK(t, d, i, k)) => \E x \in xs \cup ss : x.oi = i \/ x.ci = i
     /\ \E p \in LineS(d.br, k)..(LineE(t, d.br, k) - 1) : ~IsBlank(t[p + 1]) /\ \A x \in xs \cup ss : ~(x.os <= p /\ p < x.ce)
WrapperLinesTolerable(t, d, docs) ==
  \A e \in d.elems : (e.uw /\ e.m >= 2) =>
     /\ (TagTouchesLine(t, d, e.lo + 1) => WrapperLineTolerable(t, d, e, e.lo + 1, docs))
     /\ (TagTouchesLine(t, d, e.lc - 1) => WrapperLineTolerable(t, d, e, e.lc - 1, docs))

(***************************************************************************)
(* Line integrity (C11 first sentence, C13 first sentence): the non-blank  *)
(* lines of the result are the surviving non-blank lines of the source, in *)
(* order - compared without their indentation (exact = FALSE, unwrapped    *)
(* bodies are dedented) or byte for byte (exact = TRUE).                   *)
(***************************************************************************)
LineIntegrity(t, d, out, exact) ==
  LET ls == LinesOf(t)
      os == LinesOf(out)
      sv == SurvivingLineNos(t, d)
      ob == NonBlankLineNos(os)
  IN /\ Len(sv) = Len(ob)
     /\ \A k \in 1..Len(sv) :
          IF exact THEN os[ob[k]] = ls[sv[k]]
          ELSE StripIndent(os[ob[k]]) = StripIndent(ls[sv[k]])

(***************************************************************************)
(* C11, second sentence: an unwrap-block that cannot be unwrapped is left  *)
(* completely untouched, tags included (when no ready element overlaps it).*)
(***************************************************************************)
Overlaps(e, f) == e.os < f.ce /\ f.os < e.ce

UntouchedBlocks(t, d, out) ==
  \A e \in d.elems :
     (e.uw /\ e.st = "ready" /\ ~e.unwrappable /\ e.alone /\ ~\E f \in ReadyElems(d) : Overlaps(e, f)) =>
        Occurs(out, Slice(t, LineS(d.br, LineOf(d.br, e.os)), LineE(t, d.br, LineOf(d.br, e.ce - 1))))

(***************************************************************************)
(* C12 dedent.  For an unwrapped element u: T_u = indentation of its       *)
(* opening tag, F_u = indentation of the first inner line (line lo + 2 of  *)
(* the source), d_u = max(F_u - T_u, 0).  A surviving inner line with      *)
(* indentation I loses exactly the leading columns                         *)
(*       UNION over its unwrapped ancestors u of [T_u, T_u + d_u)          *)
(* (clipped to [0, I)); nothing else of the line changes.                  *)
(***************************************************************************)
UnwrappedElems(d) == {e \in ReadyElems(d) : e.uw}

TagIndent(t, d, u)   == IndentLen(LineText(t, d.br, LineOf(d.br, u.os)))
FirstIndent(t, d, u) == IndentLen(LineText(t, d.br, u.lo + 2))
DedentCols(t, d, u)  == LET T == TagIndent(t, d, u)
                            F == FirstIndent(t, d, u)
                        IN IF F > T THEN T..(F - 1) ELSE {}          \* 0-based columns

InnerLines(u) == (u.lo + 2)..(u.lc - 2)

\* regular nesting: the column bands of nested unwrapped elements are disjoint and ordered outside-in
\* Overlapping bands leave the combined shift open in general (union or sum of the two amounts?).  One case is
\* determined whatever the reading: both tags stand in the same column and no inner line of the inner block is
\* indented deeper than the inner block's first inner line - every such line ends in the tags' column.
SameColumnShallow(t, d, u, w) ==
  LET T == TagIndent(t, d, w) IN
  /\ TagIndent(t, d, u) = T
  /\ \A k \in InnerLines(w) :
        LET l == LineText(t, d.br, k) IN IsBlankLine(l) \/ IndentLen(l) <= FirstIndent(t, d, w)

RegularNesting(t, d) ==
  \A u \in UnwrappedElems(d), w \in UnwrappedElems(d) :
     (u # w /\ u.os < w.os /\ w.ce < u.ce) =>
        (DedentCols(t, d, u) = {} \/ DedentCols(t, d, w) = {}
         \/ (\A a \in DedentCols(t, d, u), b2 \in DedentCols(t, d, w) : a < b2)
         \/ SameColumnShallow(t, d, u, w))

RemoveCols(l, cols) ==
  LET I == IndentLen(l)
      keep == SelectSeq([i \in 1..Len(l) |-> i], LAMBDA i : ~(i <= I /\ (i - 1) \in cols))
  IN [k \in 1..Len(keep) |-> l[keep[k]]]

Dedent(t, d, out) ==
  LET ls == LinesOf(t)
      os == LinesOf(out)
      sv == SurvivingLineNos(t, d)
      ob == NonBlankLineNos(os)
      us == UnwrappedElems(d)
  IN Len(sv) = Len(ob) =>
       \A k \in 1..Len(sv) :
          LET anc == {u \in us : sv[k] \in InnerLines(u)}
              cols == UNION {DedentCols(t, d, u) : u \in anc}
          IN os[ob[k]] = RemoveCols(ls[sv[k]], cols)

(***************************************************************************)
(* C13 blank-line residue.  For a removed region (maximal ready extent,    *)
(* lines f..l) with nearest surviving non-blank lines u before and v after *)
(* and no line of another region between u and v: with b blank lines       *)
(* between u and f and a between l and v, exactly a + b - [a>0 /\ b>0]     *)
(* blank lines lie between the images of u and v in the result.            *)
(***************************************************************************)
RegionLineRanges(d) ==
  LET rs == MaxRanges(RangesOf(ReadyElems(d))) IN {<<LineOf(d.br, r[1]), LineOf(d.br, r[2] - 1)>> : r \in rs}

BlankResidue(t, d, out) ==
  LET ls == LinesOf(t)
      os == LinesOf(out)
      sv == SurvivingLineNos(t, d)
      ob == NonBlankLineNos(os)
      regs == RegionLineRanges(d)
  IN Len(sv) = Len(ob) =>
       \A k \in 1..(Len(sv) - 1) :
          LET u == sv[k]
              v == sv[k + 1]
              inside == {r \in regs : u < r[1] /\ r[2] < v}
          IN (Cardinality(inside) = 1 /\ \A r \in regs : ~(r[1] <= v /\ u <= r[2]) \/ r \in inside) =>
               LET r == CHOOSE x \in inside : TRUE
                   b == r[1] - u - 1
                   a == v - r[2] - 1
                   expect == a + b - (IF a > 0 /\ b > 0 THEN 1 ELSE 0)
               IN ob[k + 1] - ob[k] - 1 = expect

(***************************************************************************)
(* C14 locality: maximal stretches of the source without removed           *)
(* characters (inside an unwrapped body: line by line), trimmed, occur     *)
(* verbatim and in order in the result.                                    *)
(***************************************************************************)
BodyRanges(d) == {<<u.ext[1][2], u.ext[2][1]>> : u \in UnwrappedElems(d)}

RECURSIVE StretchScan(_, _, _, _, _, _)
StretchScan(t, rs, bodies, i, cur, acc) ==      \* i: 1-based position; cur: stretch under construction
  IF i > Len(t) THEN (IF Trim(cur) # <<>> THEN Append(acc, Trim(cur)) ELSE acc)
  ELSE LET cut == InRanges(rs, i - 1) \/ (t[i] = NL /\ InRanges(bodies, i - 1)) IN
       IF cut THEN StretchScan(t, rs, bodies, i + 1, <<>>, IF Trim(cur) # <<>> THEN Append(acc, Trim(cur)) ELSE acc)
       ELSE StretchScan(t, rs, bodies, i + 1, Append(cur, t[i]), acc)

Stretches(t, d) == StretchScan(t, RangesOf(ReadyElems(d)), BodyRanges(d), 1, <<>>, <<>>)

RECURSIVE InOrder(_, _, _, _)
InOrder(out, ss, k, pos) ==
  IF k > Len(ss) THEN TRUE
  ELSE LET f == FindFrom(out, pos, ss[k]) IN
       IF f = 0 THEN FALSE ELSE InOrder(out, ss, k + 1, f + Len(ss[k]))

Locality(t, d, out) == InOrder(out, Stretches(t, d), 1, 1)
=============================================================================
