; ModuleID = 'autocfg_673ca20363997373_0.adb2769b7833979c-cgu.0'
source_filename = "autocfg_673ca20363997373_0.adb2769b7833979c-cgu.0"
target datalayout = "e-m:e-p270:32:32-p271:32:32-p272:64:64-i64:64-i128:128-f80:128-n8:16:32:64-S128"
target triple = "x86_64-unknown-linux-gnu"

!llvm.module.flags = !{!0, !1}
!llvm.ident = !{!2}

!0 = !{i32 8, !"PIC Level", i32 2}
!1 = !{i32 2, !"RtLibUseGOT", i32 1}
!2 = !{!"rustc version 1.95.0 (59807616e 2026-04-14)"}
