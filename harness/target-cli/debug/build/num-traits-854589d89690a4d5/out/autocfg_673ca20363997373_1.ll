; ModuleID = 'autocfg_673ca20363997373_1.4c79ba1f46faea21-cgu.0'
source_filename = "autocfg_673ca20363997373_1.4c79ba1f46faea21-cgu.0"
target datalayout = "e-m:e-p270:32:32-p271:32:32-p272:64:64-i64:64-i128:128-f80:128-n8:16:32:64-S128"
target triple = "x86_64-unknown-linux-gnu"

@alloc_f93507f8ba4b5780b14b2c2584609be0 = private unnamed_addr constant [8 x i8] c"\00\00\00\00\00\00\F0?", align 8
@alloc_ef0a1f828f3393ef691f2705e817091c = private unnamed_addr constant [8 x i8] c"\00\00\00\00\00\00\00@", align 8

; autocfg_673ca20363997373_1::probe
; Function Attrs: nonlazybind uwtable
define void @_ZN26autocfg_673ca20363997373_15probe17ha2284d3cb20a229eE() unnamed_addr #0 {
start:
; call core::f64::<impl f64>::total_cmp
  %_1 = call i8 @"_ZN4core3f6421_$LT$impl$u20$f64$GT$9total_cmp17h7e1f9e70a6fbdc7bE"(ptr align 8 @alloc_f93507f8ba4b5780b14b2c2584609be0, ptr align 8 @alloc_ef0a1f828f3393ef691f2705e817091c) #3
  ret void
}

; core::f64::<impl f64>::total_cmp
; Function Attrs: inlinehint nonlazybind uwtable
define internal i8 @"_ZN4core3f6421_$LT$impl$u20$f64$GT$9total_cmp17h7e1f9e70a6fbdc7bE"(ptr align 8 %self, ptr align 8 %other) unnamed_addr #1 {
start:
  %_6 = alloca [8 x i8], align 8
  %_3 = alloca [8 x i8], align 8
  %_5 = load double, ptr %self, align 8
  %_4 = bitcast double %_5 to i64
  store i64 %_4, ptr %_3, align 8
  %_8 = load double, ptr %other, align 8
  %_7 = bitcast double %_8 to i64
  store i64 %_7, ptr %_6, align 8
  %_13 = load i64, ptr %_3, align 8
  %_12 = ashr i64 %_13, 63
  %_10 = lshr i64 %_12, 1
  %0 = load i64, ptr %_3, align 8
  %1 = xor i64 %0, %_10
  store i64 %1, ptr %_3, align 8
  %_18 = load i64, ptr %_6, align 8
  %_17 = ashr i64 %_18, 63
  %_15 = lshr i64 %_17, 1
  %2 = load i64, ptr %_6, align 8
  %3 = xor i64 %2, %_15
  store i64 %3, ptr %_6, align 8
  %4 = load i64, ptr %_3, align 8
  %5 = load i64, ptr %_6, align 8
  %_0 = call i8 @llvm.scmp.i8.i64(i64 %4, i64 %5)
  ret i8 %_0
}

; Function Attrs: nocallback nocreateundeforpoison nofree nosync nounwind speculatable willreturn memory(none)
declare range(i8 -1, 2) i8 @llvm.scmp.i8.i64(i64, i64) #2

attributes #0 = { nonlazybind uwtable "probe-stack"="inline-asm" "target-cpu"="x86-64" }
attributes #1 = { inlinehint nonlazybind uwtable "probe-stack"="inline-asm" "target-cpu"="x86-64" }
attributes #2 = { nocallback nocreateundeforpoison nofree nosync nounwind speculatable willreturn memory(none) }
attributes #3 = { inlinehint }

!llvm.module.flags = !{!0, !1}
!llvm.ident = !{!2}

!0 = !{i32 8, !"PIC Level", i32 2}
!1 = !{i32 2, !"RtLibUseGOT", i32 1}
!2 = !{!"rustc version 1.95.0 (59807616e 2026-04-14)"}
