//! chk: conformance harness binding the TLA+ specification in /verif/spec to the real chiritori code.
//!
//! `chk run <behaviours.ndjson> <trace.ndjson> [--threads N] [--cli <path to chiritori binary>]`
//!     replays behaviours (initial file + configuration + a sequence of operations) through the real
//!     library / binary and records what the code did as one JSON object per behaviour. The harness is
//!     deliberately dumb: it records inputs, hook events and results, and leaves every judgement to TLC.
//! `chk gen <family> ...` seeded generators for behaviours that TLC does not enumerate (see gen.rs).
mod gen;
mod run;

fn main() {
    let args: Vec<String> = std::env::args().collect();
    if args.len() < 2 {
        eprintln!("usage: chk run|gen ...");
        std::process::exit(2);
    }
    let code = match args[1].as_str() {
        "run" => run::main(&args[2..]),
        "gen" => gen::main(&args[2..]),
        _ => {
            eprintln!("unknown subcommand {}", args[1]);
            2
        }
    };
    std::process::exit(code);
}
