//! Seeded generators for behaviours beyond what TLC enumerates (long / junk / mutated documents).
//! `chk gen junk <seed> <count> <minlen> <maxlen> <cfg-json> <ops-json> <out.ndjson>`
//! `chk gen mutate <seed> <per-doc> <in.ndjson> <out.ndjson>`   (mutates the "src" of each input behaviour)
use crate::run::{cps, from_cps};
use serde_json::{json, Value};
use std::io::{BufRead, BufReader, BufWriter, Write};

pub struct Rng(u64);
impl Rng {
    pub fn new(seed: u64) -> Rng {
        Rng(seed.wrapping_mul(0x9E3779B97F4A7C15) ^ 0xD1B54A32D192ED03)
    }
    pub fn next(&mut self) -> u64 {
        // splitmix64
        self.0 = self.0.wrapping_add(0x9E3779B97F4A7C15);
        let mut z = self.0;
        z = (z ^ (z >> 30)).wrapping_mul(0xBF58476D1CE4E5B9);
        z = (z ^ (z >> 27)).wrapping_mul(0x94D049BB133111EB);
        z ^ (z >> 31)
    }
    pub fn below(&mut self, n: usize) -> usize {
        if n == 0 {
            0
        } else {
            (self.next() % n as u64) as usize
        }
    }
}

fn junk_doc(r: &mut Rng, len: usize, ds: &str, de: &str, tl: &str, rm: &str) -> String {
    let atoms: Vec<String> = vec![
        ds.to_string(),
        de.to_string(),
        tl.to_string(),
        rm.to_string(),
        format!("/{}", tl),
        format!("/{}", rm),
        format!("{}{} to='2000-01-01 00:00:00'{}", ds, tl, de),
        format!("{}{} to='2999-01-01 00:00:00'{}", ds, tl, de),
        format!("{}{} name='a'{}", ds, rm, de),
        format!("{}{} name='b'{}", ds, rm, de),
        format!("{}{} name='a' unwrap-block{}", ds, rm, de),
        format!("{}/{}{}", ds, tl, de),
        format!("{}/{}{}", ds, rm, de),
        " skip".into(),
        " unwrap-block".into(),
        " ".into(),
        "  ".into(),
        "\n".into(),
        "\n".into(),
        "\t".into(),
        "\r\n".into(),
        "x".into(),
        "yz".into(),
        "é".into(),
        "あ".into(),
        "😀".into(),
        "e\u{301}".into(),
        "=".into(),
        "'".into(),
        "\"".into(),
        "/".into(),
        "{".into(),
        "}".into(),
    ];
    let mut s = String::new();
    while s.chars().count() < len {
        let k = r.below(atoms.len() + 4);
        if k < atoms.len() {
            s.push_str(&atoms[k]);
        } else {
            // a prefix of a delimiter
            let d: Vec<char> = if r.below(2) == 0 { ds.chars().collect() } else { de.chars().collect() };
            let n = 1 + r.below(d.len());
            s.extend(d[..n].iter());
        }
    }
    s
}

pub fn main(args: &[String]) -> i32 {
    match args.first().map(|s| s.as_str()) {
        Some("junk") if args.len() == 8 => {
            let seed: u64 = args[1].parse().unwrap_or(0);
            let count: usize = args[2].parse().unwrap_or(0);
            let minlen: usize = args[3].parse().unwrap_or(1);
            let maxlen: usize = args[4].parse().unwrap_or(100);
            let cfg: Value = serde_json::from_str(&args[5]).expect("cfg json");
            let ops: Value = serde_json::from_str(&args[6]).expect("ops json");
            let c = crate::run::Cfg::from_json(&cfg);
            let mut r = Rng::new(seed);
            let mut w = BufWriter::new(std::fs::File::create(&args[7]).unwrap());
            for i in 0..count {
                let len = minlen + r.below(maxlen - minlen + 1);
                let doc = junk_doc(&mut r, len, &c.ds, &c.de, &c.tl, &c.rm);
                writeln!(w, "{}", json!({"id": format!("junk-{}-{}", seed, i), "gen": "junk", "src": cps(&doc), "cfg": c.to_json(), "ops": ops})).unwrap();
            }
            0
        }
        Some("mutate") if args.len() == 5 => {
            let seed: u64 = args[1].parse().unwrap_or(0);
            let per: usize = args[2].parse().unwrap_or(1);
            let mut r = Rng::new(seed);
            let f = BufReader::new(std::fs::File::open(&args[3]).unwrap());
            let mut w = BufWriter::new(std::fs::File::create(&args[4]).unwrap());
            for line in f.lines().map_while(Result::ok) {
                let b: Value = match serde_json::from_str(&line) {
                    Ok(b) => b,
                    Err(_) => continue,
                };
                let c = crate::run::Cfg::from_json(&b["cfg"]);
                let src: Vec<char> = from_cps(&b["src"]).chars().collect();
                for k in 0..per {
                    let mut s = src.clone();
                    if s.is_empty() {
                        continue;
                    }
                    match r.below(5) {
                        0 => {
                            let i = r.below(s.len());
                            s.remove(i);
                        }
                        1 => {
                            let i = r.below(s.len());
                            let c0 = s[i];
                            s.insert(i, c0);
                        }
                        2 => {
                            let i = r.below(s.len());
                            let j = r.below(s.len());
                            s.swap(i, j);
                        }
                        3 => {
                            let d: Vec<char> = if r.below(2) == 0 { c.ds.chars().collect() } else { c.de.chars().collect() };
                            let n = 1 + r.below(d.len());
                            let i = r.below(s.len() + 1);
                            for (o, ch) in d[..n].iter().enumerate() {
                                s.insert(i + o, *ch);
                            }
                        }
                        _ => {
                            let i = r.below(s.len());
                            let j = (i + 1 + r.below(8)).min(s.len());
                            s.drain(i..j);
                        }
                    }
                    let mut nb = b.clone();
                    nb["src"] = cps(&s.iter().collect::<String>());
                    nb["id"] = json!(format!("{}~m{}", b["id"].as_str().unwrap_or("?"), k));
                    nb["gen"] = json!("mutate");
                    writeln!(w, "{}", nb).unwrap();
                }
            }
            0
        }
        _ => {
            eprintln!("usage: chk gen junk <seed> <count> <minlen> <maxlen> <cfg> <ops> <out> | chk gen mutate <seed> <per> <in> <out>");
            2
        }
    }
}
