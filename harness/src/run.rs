use chiritori::chiritori::{
    clean, list, list_all, ChiritoriConfiguration, ListFormat, RemovalMarkerConfiguration,
    TimeLimitedConfiguration,
};
use chiritori::code::remover::removal_evaluator::{
    marker_evaluator::MarkerEvaluator, time_limited_evaluator::TimeLimitedEvaluator,
    RemovalEvaluator,
};
use chiritori::element_parser::{Attribute, Element};
use chiritori::{element_parser, parser, tokenizer, verif_hooks};
use chrono::TimeZone;
use serde_json::{json, Map, Value};
use std::cell::RefCell;
use std::collections::HashSet;
use std::io::{BufRead, BufReader, BufWriter, Write};
use std::panic::{catch_unwind, AssertUnwindSafe};
use std::rc::Rc;

thread_local! {
    static PANIC_AT: RefCell<String> = const { RefCell::new(String::new()) };
}

pub fn cps(s: &str) -> Value {
    Value::Array(s.chars().map(|c| json!(c as u32)).collect())
}

pub fn from_cps(v: &Value) -> String {
    v.as_array()
        .map(|a| {
            a.iter()
                .map(|x| char::from_u32(x.as_u64().unwrap_or(0xFFFD) as u32).unwrap_or('\u{FFFD}'))
                .collect()
        })
        .unwrap_or_default()
}

#[derive(Clone, Debug)]
pub struct Cfg {
    pub ds: String,
    pub de: String,
    pub tl: String,
    pub rm: String,
    pub off: String,
    pub now: (i64, i64),
    pub now_ms: i64,
    pub targets: Vec<String>,
}

impl Cfg {
    pub fn from_json(v: &Value) -> Cfg {
        let mut c = Cfg {
            ds: "<".into(),
            de: ">".into(),
            tl: "time-limited".into(),
            rm: "removal-marker".into(),
            off: "+00:00".into(),
            now: (0, 0),
            now_ms: 0,
            targets: vec![],
        };
        c.update(v);
        c
    }
    pub fn update(&mut self, v: &Value) {
        if let Some(x) = v.get("ds") {
            self.ds = from_cps(x);
        }
        if let Some(x) = v.get("de") {
            self.de = from_cps(x);
        }
        if let Some(x) = v.get("tl") {
            self.tl = from_cps(x);
        }
        if let Some(x) = v.get("rm") {
            self.rm = from_cps(x);
        }
        if let Some(x) = v.get("off") {
            self.off = from_cps(x);
        }
        if let Some(x) = v.get("now") {
            if x.as_str() == Some("wall") {
                // the harness's own reading of the system clock (logged with the Config event)
                let t = std::time::SystemTime::now().duration_since(std::time::UNIX_EPOCH).map(|d| d.as_secs() as i64).unwrap_or(0);
                self.now = (t / 86400, t % 86400);
            } else {
                self.now = (x[0].as_i64().unwrap_or(0), x[1].as_i64().unwrap_or(0));
            }
        }
        // a fraction of a second on top of `now` (milliseconds); reset by every new `now`
        if v.get("now").is_some() {
            self.now_ms = 0;
        }
        if let Some(x) = v.get("now_ms") {
            self.now_ms = x.as_i64().unwrap_or(0).clamp(0, 999);
        }
        if let Some(x) = v.get("targets") {
            self.targets = x
                .as_array()
                .map(|a| a.iter().map(from_cps).collect())
                .unwrap_or_default();
        }
    }
    pub fn to_json(&self) -> Value {
        json!({
            "ds": cps(&self.ds), "de": cps(&self.de), "tl": cps(&self.tl), "rm": cps(&self.rm),
            "off": cps(&self.off), "now": [self.now.0, self.now.1], "now_ms": self.now_ms,
            "targets": self.targets.iter().map(|t| cps(t)).collect::<Vec<_>>(),
        })
    }
    fn epoch(&self) -> i64 {
        self.now.0 * 86400 + self.now.1
    }
    fn lib(&self) -> ChiritoriConfiguration {
        ChiritoriConfiguration {
            time_limited_configuration: TimeLimitedConfiguration {
                tag_name: self.tl.clone(),
                time_offset: self.off.clone(),
                current: chrono::Local.timestamp_opt(self.epoch(), (self.now_ms * 1_000_000) as u32).unwrap(),
            },
            removal_marker_configuration: RemovalMarkerConfiguration {
                tag_name: self.rm.clone(),
                targets: self.targets.iter().cloned().collect::<HashSet<_>>(),
            },
        }
    }
}

fn guarded<T>(f: impl FnOnce() -> T) -> Result<T, String> {
    PANIC_AT.with(|p| p.borrow_mut().clear());
    match catch_unwind(AssertUnwindSafe(f)) {
        Ok(v) => Ok(v),
        Err(_) => Err(PANIC_AT.with(|p| p.borrow().clone())),
    }
}

fn rows_json(rows: &[Vec<i64>]) -> Value {
    json!(rows)
}

fn hook_events(events: Vec<verif_hooks::Event>, fmt_hooks: bool, out: &mut Vec<Value>) {
    for e in events {
        if !fmt_hooks && matches!(e.stage, "Seam" | "Block" | "FinalRanges") {
            continue;
        }
        out.push(json!({
            "ev": "Hook", "stage": e.stage, "rows": rows_json(&e.rows),
            "text": e.text.as_deref().map(cps).unwrap_or(json!([])),
        }));
    }
}

const ESC: char = '\u{1b}';

fn strip_colors(s: &str) -> String {
    let mut out = String::with_capacity(s.len());
    let mut it = s.chars().peekable();
    while let Some(c) = it.next() {
        if c == ESC && it.peek() == Some(&'[') {
            it.next();
            for d in it.by_ref() {
                if d == 'm' {
                    break;
                }
            }
        } else {
            out.push(c);
        }
    }
    out
}

/// Split the pretty list on its header lines "\n-------- [ k ]  Ready  --------\n".
/// Returns None when the shape is not recognised (reported as a tool-level problem, never as a verdict).
fn split_pretty(s: &str) -> Option<Vec<(String, String)>> {
    let body = s.strip_suffix('\n')?;
    let mut items = vec![];
    let mut rest = body;
    if rest.is_empty() {
        return Some(items);
    }
    let mut k = 1;
    loop {
        let (status, head) = {
            let h_ready = format!("\n-------- [ {} ]  Ready  --------\n", k);
            let h_pend = format!("\n-------- [ {} ] Pending --------\n", k);
            if rest.starts_with(&h_ready) {
                ("Ready", h_ready)
            } else if rest.starts_with(&h_pend) {
                ("Pending", h_pend)
            } else {
                return None;
            }
        };
        rest = &rest[head.len()..];
        let n1 = format!("\n-------- [ {} ]  Ready  --------\n", k + 1);
        let n2 = format!("\n-------- [ {} ] Pending --------\n", k + 1);
        let cut = [rest.find(&n1), rest.find(&n2)].iter().flatten().min().copied();
        match cut {
            Some(c) => {
                items.push((status.to_string(), rest[..c].to_string()));
                rest = &rest[c..];
                k += 1;
            }
            None => {
                items.push((status.to_string(), rest.to_string()));
                return Some(items);
            }
        }
    }
}

fn list_return(out: &str, is_json: bool) -> Value {
    let mut r = Map::new();
    r.insert("ev".into(), json!("Return"));
    r.insert("out".into(), cps(out));
    if is_json {
        match serde_json::from_str::<Value>(out) {
            Ok(Value::Array(a)) => {
                let mut shape_ok = true;
                let items: Vec<Value> = a
                    .iter()
                    .map(|it| {
                        let obj = it.as_object();
                        let keys_ok = obj
                            .map(|o| {
                                o.contains_key("line_range")
                                    && o.contains_key("annotated_code_block")
                                    && o.contains_key("current_status")
                            })
                            .unwrap_or(false);
                        let lr = it.get("line_range").and_then(|x| x.as_array());
                        let lr_ok = lr
                            .map(|x| x.len() == 2 && x[0].is_u64() && x[1].is_u64())
                            .unwrap_or(false);
                        let blk = it.get("annotated_code_block").and_then(|x| x.as_str());
                        let st = it.get("current_status").and_then(|x| x.as_str());
                        if !(keys_ok && lr_ok && blk.is_some() && st.is_some()) {
                            shape_ok = false;
                            return json!({"lr": [0, 0], "block": [], "status": "?"});
                        }
                        json!({"lr": [lr.unwrap()[0], lr.unwrap()[1]], "block": cps(blk.unwrap()), "status": st.unwrap()})
                    })
                    .collect();
                r.insert("json_ok".into(), json!(shape_ok));
                r.insert("items".into(), json!(items));
            }
            _ => {
                r.insert("json_ok".into(), json!(false));
                r.insert("items".into(), json!([]));
            }
        }
    } else {
        match split_pretty(out) {
            Some(items) => {
                r.insert("split_ok".into(), json!(true));
                r.insert(
                    "items".into(),
                    json!(items
                        .iter()
                        .map(|(st, b)| json!({"status": st, "block": cps(&strip_colors(b)), "raw": cps(b)}))
                        .collect::<Vec<_>>()),
                );
            }
            None => {
                r.insert("split_ok".into(), json!(false));
                r.insert("items".into(), json!([]));
            }
        }
    }
    Value::Object(r)
}

fn rfc3339(day: i64, sec: i64, ms: i64, zone_min: i64) -> String {
    let t = chrono::DateTime::from_timestamp(day * 86400 + sec, (ms * 1_000_000) as u32).unwrap();
    let off = chrono::FixedOffset::east_opt((zone_min * 60) as i32).unwrap();
    t.with_timezone(&off).to_rfc3339()
}

fn read_file_cps(p: &std::path::Path) -> (bool, Value) {
    match std::fs::read(p) {
        Ok(b) => match String::from_utf8(b) {
            Ok(s) => (true, cps(&s)),
            Err(_) => (false, json!([])),
        },
        Err(_) => (false, json!([])),
    }
}

fn run_cli(op: &Value, file: &mut String, cfg: &Cfg, cli: Option<&str>, events: &mut Vec<Value>) {
    let bin = match cli {
        Some(b) => b,
        None => {
            events.push(json!({"ev": "ToolError", "what": "no --cli binary given"}));
            return;
        }
    };
    static CTR: std::sync::atomic::AtomicUsize = std::sync::atomic::AtomicUsize::new(0);
    let n = CTR.fetch_add(1, std::sync::atomic::Ordering::SeqCst);
    let base = std::env::var("CHK_TMP").unwrap_or_else(|_| "/dev/shm".into());
    let mut dir = std::path::PathBuf::from(format!("{}/chk-cli-{}-{}", base, std::process::id(), n));
    if std::fs::create_dir_all(&dir).is_err() {
        dir = std::env::temp_dir().join(format!("chk-cli-{}-{}", std::process::id(), n));
        let _ = std::fs::create_dir_all(&dir);
    }
    let s = |k: &str, d: &str| op.get(k).and_then(|x| x.as_str()).unwrap_or(d).to_string();
    let b = |k: &str| op.get(k).and_then(|x| x.as_bool()).unwrap_or(false);
    let input = s("input", "file");
    let output = s("output", "stdout");
    let mode = s("mode", "clean");
    let via = s("targets_via", "flags");
    let tz = s("tz", "UTC");
    let lang = s("lang", "");
    let explicit = |k: &str| !op.get("omit").and_then(|x| x.as_array()).map(|a| a.iter().any(|y| y == k)).unwrap_or(false);
    let zone_min = op.get("now_zone_min").and_then(|x| x.as_i64()).unwrap_or(0);

    // "odd": option combinations and failures no listed property speaks about (Layer I / Conform!ConfCliOdd only):
    // "both_lists" (--list and --list-all together), "json_clean" (--list-json without a list mode: mode = clean, json = true),
    // "missing_input" (--filename names a file that does not exist), "bad_outdir" (--output inside a directory that does not exist)
    let odd = s("odd", "");
    let in_path = dir.join("in.src");
    let out_path = if odd == "bad_outdir" { dir.join("no-such-dir").join("out.src") } else { dir.join("out.src") };
    let conf_path = dir.join("targets.conf");
    let mut args: Vec<String> = vec![];
    // "argform": "sep" passes option values as separate arguments (`--opt value`) where the value cannot be taken
    // for an option itself; the default is `--opt=value`
    let sep = s("argform", "eq") == "sep";
    let push_opt = |args: &mut Vec<String>, name: &str, val: &str| {
        if sep && !val.starts_with('-') && !val.is_empty() {
            args.push(name.to_string());
            args.push(val.to_string());
        } else {
            args.push(format!("{}={}", name, val));
        }
    };
    if input == "file" {
        if odd != "missing_input" {
            std::fs::write(&in_path, file.as_bytes()).unwrap();
        }
        args.push("--filename".into());
        args.push(in_path.to_string_lossy().into());
    }
    match output.as_str() {
        "file" => {
            args.push("--output".into());
            args.push(out_path.to_string_lossy().into());
        }
        "same" => {
            args.push("--output".into());
            args.push(in_path.to_string_lossy().into());
        }
        _ => {}
    }
    if explicit("ds") {
        push_opt(&mut args, "--delimiter-start", &cfg.ds);
    }
    if explicit("de") {
        push_opt(&mut args, "--delimiter-end", &cfg.de);
    }
    if explicit("tl") {
        push_opt(&mut args, "--time-limited-tag-name", &cfg.tl);
    }
    if explicit("rm") {
        push_opt(&mut args, "--removal-marker-tag-name", &cfg.rm);
    }
    if explicit("off") {
        push_opt(&mut args, "--time-limited-time-offset", &cfg.off);
    }
    // "current": "omit" leaves the option out: the process then reads the system clock itself
    // "current": "garbage" passes a string that is no time (the code falls back to the clock as well)
    let current = s("current", "given");
    match current.as_str() {
        "omit" => {}
        "garbage" => args.push("--time-limited-current=not-a-time".into()),
        // "naive": the digits of the current instant (UTC) without any zone, the way `to` attributes are written
        "naive" => {
            let t = chrono::DateTime::from_timestamp(cfg.now.0 * 86400 + cfg.now.1, 0).unwrap();
            args.push(format!("--time-limited-current={}", t.format("%Y-%m-%d %H:%M:%S")));
        }
        _ => args.push(format!("--time-limited-current={}", rfc3339(cfg.now.0, cfg.now.1, cfg.now_ms, zone_min))),
    }
    // targets: the behaviour says which go through the file and which through flags
    let file_targets: Vec<String> = op.get("file_targets").and_then(|x| x.as_array()).map(|a| a.iter().map(from_cps).collect()).unwrap_or_default();
    let flag_targets: Vec<String> = op.get("flag_targets").and_then(|x| x.as_array()).map(|a| a.iter().map(from_cps).collect()).unwrap_or_default();
    if via == "file" || via == "both" {
        let mut body = String::new();
        for t in &file_targets {
            body.push_str(t);
            body.push('\n');
        }
        // "conf_final_newline": false - the last line of the file is not terminated
        if op.get("conf_final_newline").and_then(|x| x.as_bool()) == Some(false) && body.ends_with('\n') {
            body.pop();
        }
        std::fs::write(&conf_path, body).unwrap();
        args.push("--removal-marker-target-config".into());
        args.push(conf_path.to_string_lossy().into());
    }
    if via == "flags" || via == "both" {
        for t in &flag_targets {
            push_opt(&mut args, "--removal-marker-target-name", t);
        }
    }
    match mode.as_str() {
        "list" => {
            args.push("--list".into());
            if odd == "both_lists" {
                args.push("--list-all".into());
            }
        }
        "list_all" => args.push("--list-all".into()),
        _ => {}
    }
    if b("json") {
        args.push("--list-json".into());
    }

    let mut cmd = std::process::Command::new(bin);
    cmd.args(&args).current_dir(&dir).env_clear();
    if tz != "unset" {
        cmd.env("TZ", &tz);
    }
    if !lang.is_empty() {
        cmd.env("LANG", &lang).env("LC_ALL", &lang);
    }
    cmd.stdout(std::process::Stdio::piped()).stderr(std::process::Stdio::piped());
    cmd.stdin(std::process::Stdio::piped());
    let res = cmd.spawn().and_then(|mut child| {
        {
            let mut stdin = child.stdin.take().unwrap();
            if input == "stdin" {
                let _ = stdin.write_all(file.as_bytes());
            }
        }
        child.wait_with_output()
    });
    let wall1 = std::time::SystemTime::now().duration_since(std::time::UNIX_EPOCH).map(|d| d.as_secs() as i64).unwrap_or(0);
    match res {
        Ok(o) => {
            let stdout_utf8 = String::from_utf8(o.stdout.clone());
            let (has_out, outc) = if output == "file" { read_file_cps(&out_path) } else { (false, json!([])) };
            let (has_in, inc) = if input == "file" { read_file_cps(&in_path) } else { (false, json!([])) };
            if output == "same" && input == "file" && has_in {
                *file = from_cps(&inc);
            }
            // the JSON payload (wherever it was written) parsed into line ranges and statuses
            let payload: Option<String> = match output.as_str() {
                "stdout" => stdout_utf8.as_ref().ok().cloned(),
                "file" => if has_out { Some(from_cps(&outc)) } else { None },
                _ => if has_in { Some(from_cps(&inc)) } else { None },
            };
            let (pj_ok, pj_items) = if b("json") && mode != "clean" {
                match payload {
                    Some(p) => {
                        let lr = list_return(&p, true);
                        (lr.get("json_ok").and_then(|x| x.as_bool()).unwrap_or(false), lr.get("items").cloned().unwrap_or(json!([])))
                    }
                    None => (false, json!([])),
                }
            } else {
                (false, json!([]))
            };
            let shown: Vec<String> = args.iter().map(|a| a.replace(dir.to_string_lossy().as_ref(), "$D")).collect();
            events.push(json!({
                "ev": "Cli", "args": shown, "input": input, "output": output, "mode": mode, "json": b("json"),
                "cur_given": current == "given", "wall1": [wall1 / 86400, wall1 % 86400],
                "via": via, "tz": tz, "lang": lang, "omit": op.get("omit").cloned().unwrap_or(json!([])),
                "file_targets": file_targets.iter().map(|t| cps(t)).collect::<Vec<_>>(),
                "flag_targets": flag_targets.iter().map(|t| cps(t)).collect::<Vec<_>>(),
                "exit": o.status.code().unwrap_or(-1),
                "stdout_utf8": stdout_utf8.is_ok(),
                "stdout": stdout_utf8.as_deref().map(cps).unwrap_or(json!([])),
                "stderr_head": String::from_utf8_lossy(&o.stderr).chars().take(200).collect::<String>(),
                "has_outfile": has_out, "outfile": outc,
                "has_infile": has_in, "infile_after": inc,
                "payload_json_ok": pj_ok, "payload_items": pj_items, "odd": odd,
            }));
        }
        Err(e) => events.push(json!({"ev": "ToolError", "what": format!("spawn failed: {}", e)})),
    }
    let _ = std::fs::remove_dir_all(&dir);
}

pub struct Opts {
    pub fmt_hooks: bool,
    pub cli: Option<String>,
}

fn exec(op: &Value, file: &mut String, cfg: &mut Cfg, events: &mut Vec<Value>, o: &Opts) {
    let name = op.get("op").and_then(|x| x.as_str()).unwrap_or("");
    match name {
        "edit" => {
            *file = from_cps(&op["src"]);
            events.push(json!({"ev": "Edit", "src": cps(file)}));
        }
        "config" => {
            cfg.update(op);
            events.push(json!({"ev": "Config", "cfg": cfg.to_json()}));
        }
        "tokenize" => {
            let r = guarded(|| {
                let toks = tokenizer::tokenize(file, &cfg.ds, &cfg.de);
                let vals: Vec<Value> = toks.iter().map(|t| cps(t.value)).collect();
                (verif_hooks::token_rows(&toks), vals)
            });
            match r {
                Ok((rows, vals)) => events.push(json!({"ev": "Tokenize", "toks": rows, "vals": vals})),
                Err(at) => events.push(json!({"ev": "Panic", "op": name, "at": at})),
            }
        }
        "parse_tags" => {
            let r = guarded(|| {
                let toks = tokenizer::tokenize(file, &cfg.ds, &cfg.de);
                let mut tags = vec![];
                for (i, t) in toks.iter().enumerate() {
                    if !matches!(t.kind, tokenizer::TokenKind::Element(_)) {
                        continue;
                    }
                    let p = guarded(|| {
                        element_parser::parse(t).map(|el| {
                            json!({"name": cps(el.name), "attrs": el.attrs.iter().map(|a| json!({
                                "n": cps(a.name), "hv": a.value.is_some(), "v": cps(a.value.unwrap_or(""))
                            })).collect::<Vec<_>>()})
                        })
                    });
                    tags.push(match p {
                        Ok(Some(el)) => json!({"tok": i + 1, "st": "ok", "bs": t.byte_start, "text": cps(t.value), "name": el["name"], "attrs": el["attrs"]}),
                        Ok(None) => json!({"tok": i + 1, "st": "none", "bs": t.byte_start, "text": cps(t.value), "name": [], "attrs": []}),
                        Err(at) => json!({"tok": i + 1, "st": "panic", "bs": t.byte_start, "text": cps(t.value), "name": [], "attrs": [], "at": at}),
                    });
                }
                (verif_hooks::token_rows(&toks), tags)
            });
            match r {
                Ok((rows, tags)) => events.push(json!({"ev": "ParseTags", "toks": rows, "tags": tags})),
                Err(at) => events.push(json!({"ev": "Panic", "op": name, "at": at})),
            }
        }
        "tree" => {
            let r = guarded(|| {
                let toks = tokenizer::tokenize(file, &cfg.ds, &cfg.de);
                let parsed = parser::parse(&toks);
                (verif_hooks::token_rows(&toks), verif_hooks::tree_rows(&parsed))
            });
            match r {
                Ok((rows, tree)) => events.push(json!({"ev": "Tree", "toks": rows, "tree": tree})),
                Err(at) => events.push(json!({"ev": "Panic", "op": name, "at": at})),
            }
        }
        "clean" | "commit" => {
            events.push(json!({"ev": "Call", "op": name}));
            verif_hooks::begin();
            let content = Rc::new(file.clone());
            let r = guarded(|| clean(content, (cfg.ds.clone(), cfg.de.clone()), cfg.lib()));
            hook_events(verif_hooks::take(), o.fmt_hooks, events);
            match r {
                Ok(out) => {
                    events.push(json!({"ev": "Return", "out": cps(&out)}));
                    if name == "commit" {
                        *file = out;
                    }
                }
                Err(at) => events.push(json!({"ev": "Panic", "op": name, "at": at})),
            }
        }
        "list" | "list_json" | "list_all" | "list_all_json" => {
            events.push(json!({"ev": "Call", "op": name}));
            verif_hooks::begin();
            let content = Rc::new(file.clone());
            let is_json = name.ends_with("_json");
            let fmt = if is_json { ListFormat::JSON } else { ListFormat::PrettyString };
            let r = guarded(|| {
                if name.starts_with("list_all") {
                    list_all(content, (cfg.ds.clone(), cfg.de.clone()), cfg.lib(), fmt)
                } else {
                    list(content, (cfg.ds.clone(), cfg.de.clone()), cfg.lib(), fmt)
                }
            });
            hook_events(verif_hooks::take(), o.fmt_hooks, events);
            match r {
                Ok(Ok(out)) => events.push(list_return(&out, is_json)),
                Ok(Err(e)) => events.push(json!({"ev": "ErrReturn", "err": e.to_string()})),
                Err(at) => events.push(json!({"ev": "Panic", "op": name, "at": at})),
            }
        }
        "eval_time" => {
            let hv = op.get("hv").and_then(|x| x.as_bool()).unwrap_or(true);
            let has = op.get("has").and_then(|x| x.as_bool()).unwrap_or(true);
            let to = from_cps(&op["to"]);
            let r = guarded(|| {
                let ev = TimeLimitedEvaluator {
                    current_time: chrono::Local.timestamp_opt(cfg.epoch(), (cfg.now_ms * 1_000_000) as u32).unwrap(),
                    time_offset: cfg.off.clone(),
                };
                let attrs = if has {
                    vec![Attribute { name: "to", value: if hv { Some(to.as_str()) } else { None } }]
                } else {
                    vec![]
                };
                ev.is_removal(&Element { name: "t", attrs })
            });
            match r {
                Ok(ready) => events.push(json!({"ev": "EvalTime", "to": cps(&to), "has": has, "hv": hv, "ready": ready})),
                Err(at) => events.push(json!({"ev": "Panic", "op": name, "at": at})),
            }
        }
        "eval_marker" => {
            let hv = op.get("hv").and_then(|x| x.as_bool()).unwrap_or(true);
            let has = op.get("has").and_then(|x| x.as_bool()).unwrap_or(true);
            let nm = from_cps(&op["name"]);
            let r = guarded(|| {
                let ev = MarkerEvaluator { marker_removal_names: cfg.targets.iter().cloned().collect() };
                let attrs = if has {
                    vec![Attribute { name: "name", value: if hv { Some(nm.as_str()) } else { None } }]
                } else {
                    vec![]
                };
                ev.is_removal(&Element { name: "m", attrs })
            });
            match r {
                Ok(ready) => events.push(json!({"ev": "EvalMarker", "name": cps(&nm), "has": has, "hv": hv, "ready": ready})),
                Err(at) => events.push(json!({"ev": "Panic", "op": name, "at": at})),
            }
        }
        "cli" => run_cli(op, file, cfg, o.cli.as_deref(), events),
        _ => events.push(json!({"ev": "ToolError", "what": format!("unknown op {}", name)})),
    }
}

pub fn run_behaviour(b: &Value, o: &Opts) -> Value {
    let mut file = from_cps(&b["src"]);
    let mut cfg = Cfg::from_json(&b["cfg"]);
    let mut events = vec![];
    if let Some(ops) = b["ops"].as_array() {
        for op in ops {
            exec(op, &mut file, &mut cfg, &mut events, o);
        }
    }
    let mut out = b.as_object().cloned().unwrap_or_default();
    out.insert("cfg".into(), Cfg::from_json(&b["cfg"]).to_json());
    out.insert("events".into(), Value::Array(events));
    Value::Object(out)
}

pub fn main(args: &[String]) -> i32 {
    if args.len() < 2 {
        eprintln!("usage: chk run <in.ndjson> <out.ndjson> [--threads N] [--cli BIN] [--fmt-hooks]");
        return 2;
    }
    let mut threads = 8usize;
    let mut cli = None;
    let mut fmt_hooks = false;
    let mut i = 2;
    while i < args.len() {
        match args[i].as_str() {
            "--threads" => {
                threads = args[i + 1].parse().unwrap_or(8);
                i += 1;
            }
            "--cli" => {
                cli = Some(args[i + 1].clone());
                i += 1;
            }
            "--fmt-hooks" => fmt_hooks = true,
            x => {
                eprintln!("unknown flag {}", x);
                return 2;
            }
        }
        i += 1;
    }
    std::panic::set_hook(Box::new(|info| {
        let at = info
            .location()
            .map(|l| format!("{}:{}", l.file(), l.line()))
            .unwrap_or_else(|| "?".into());
        PANIC_AT.with(|p| *p.borrow_mut() = at);
    }));
    let f = match std::fs::File::open(&args[0]) {
        Ok(f) => f,
        Err(e) => {
            eprintln!("cannot open {}: {}", args[0], e);
            return 2;
        }
    };
    let lines: Vec<String> = BufReader::new(f).lines().map_while(Result::ok).filter(|l| !l.trim().is_empty()).collect();
    let n = lines.len();
    let threads = threads.max(1).min(n.max(1));
    let chunk = n.div_ceil(threads).max(1);
    let opts = Opts { fmt_hooks, cli };
    let mut results: Vec<Vec<String>> = vec![];
    std::thread::scope(|s| {
        let hs: Vec<_> = lines
            .chunks(chunk)
            .map(|ch| {
                let opts = &opts;
                std::thread::Builder::new()
                    .stack_size(256 << 20)
                    .spawn_scoped(s, move || {
                        ch.iter()
                            .map(|l| match serde_json::from_str::<Value>(l) {
                                Ok(b) => run_behaviour(&b, opts).to_string(),
                                Err(e) => json!({"id": "?", "events": [{"ev": "ToolError", "what": format!("bad json: {}", e)}]}).to_string(),
                            })
                            .collect::<Vec<String>>()
                    })
                    .unwrap()
            })
            .collect();
        for h in hs {
            results.push(h.join().unwrap_or_default());
        }
    });
    let out = std::fs::File::create(&args[1]).unwrap();
    let mut w = BufWriter::new(out);
    let mut count = 0;
    for r in results {
        for l in r {
            writeln!(w, "{}", l).unwrap();
            count += 1;
        }
    }
    w.flush().unwrap();
    eprintln!("chk run: {} behaviours", count);
    if count != n {
        return 2;
    }
    0
}
